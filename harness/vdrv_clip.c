/* C18 implementation driver: the session machinery of vdrv_input.c plus
 *   - the server's publishing API (rfbSendServerCutText / rfbSendServerCutTextUTF8),
 *   - decoding of every ServerCutText-family message the server writes to a reference peer
 *     (classic text, extended caps/notify as raw payload, extended provide inflated with the
 *     real zlib) - printed as out=[id:kind:len:bytes;...],
 *   - real LibVNCClient peers (rc_* operations): the client object talks to the server over a
 *     socketpair inside this process; whenever the client waits for the server, the select()
 *     wrap runs rfbProcessEvents,
 *   - lk=[ids]: connections whose sendMutex is left locked after the operation.
 * One observation line per script line; same format as ocaml/driver_C18.ml. */
#define VDRV_CLIP 1
#include <rfb/rfbclient.h>
#include <zlib.h>
#include <pthread.h>
#include "vdrv_input.c"

static int in_pump;
static int rc_tag;

/* what the kernel "does" on the next write() calls of a LibVNCClient (rc_sched): k > 0 = takes at most k
 * bytes, 0 = EAGAIN (the following select() for writing returns at once: the socket really is writable),
 * k < 0 = EIO.  Exhausted: write() behaves normally. */
#define MAXSCHED 4096
static int wsched_fd = -1, wsched_n, wsched_i;
static long wsched[MAXSCHED];
ssize_t __real_write(int fd, const void *buf, size_t n);
ssize_t __wrap_write(int fd, const void *buf, size_t n) {
  if (fd >= 0 && fd == wsched_fd && wsched_i < wsched_n && n > 0) {
    long k = wsched[wsched_i++];
    if (k == 0) { errno = EAGAIN; return -1; }
    if (k < 0) { errno = EIO; return -1; }
    if ((size_t)k < n) n = (size_t)k;
  }
  return __real_write(fd, buf, n);
}

static conn *by_rc(rfbClient *cl) { int i; for (i = 0; i < MAXC; i++) if (C[i].used && C[i].is_rc && C[i].rc == (void *)cl) return &C[i]; return NULL; }

static void clip_before_select(int nfds, fd_set *r) {
  int i;
  if (in_pump || !S) return;
  for (i = 0; i < MAXC; i++)
    if (C[i].used && C[i].is_rc && C[i].rc && C[i].pfd >= 0 && C[i].pfd < nfds && FD_ISSET(C[i].pfd, r)) {
      /* a LibVNCClient waits for its server: let the server run */
      in_pump = 1; rfbProcessEvents(S, 0); in_pump = 0;
      return;
    }
}

static void rc_got_cut(rfbClient *cl, const char *text, int len) {
  char t[2 * SHOWLEN + 32], b[2 * SHOWLEN + 96]; conn *c = by_rc(cl);
  fmt_text(t, (const unsigned char *)text, (size_t)(len < 0 ? 0 : len));
  sprintf(b, "GC:%d:%d:%s", c ? c->id : -1, len, t); ev_add(b);
}
static void rc_got_cut_utf8(rfbClient *cl, const char *text, int len) {
  char t[2 * SHOWLEN + 32], b[2 * SHOWLEN + 96]; conn *c = by_rc(cl);
  fmt_text(t, (const unsigned char *)text, (size_t)(len < 0 ? 0 : len));
  sprintf(b, "GU:%d:%d:%s:0", c ? c->id : -1, len, t); ev_add(b);
}

/* FramebufferUpdate messages digested by the pump in progress: reported as GF:id (first in the line) */
static int rc_updates; static conn *rc_cur;
static void rc_finished_update(rfbClient *cl) { (void)cl; rc_updates++; }

static void clip_screen_setup(rfbScreenInfoPtr s) { (void)s; }

static void clip_teardown(void) {
  int i;
  wsched_fd = -1; wsched_n = wsched_i = 0;
  for (i = 0; i < MAXC; i++)
    if (C[i].used && C[i].is_rc && C[i].rc) {
      rfbClient *cl = (rfbClient *)C[i].rc;
      C[i].rc = NULL;
      if (cl->sock >= 0) { close(cl->sock); cl->sock = -1; }
      rfbClientCleanup(cl);
      C[i].pfd = -1;
    }
}

/* append to the observation line: decoded clipboard messages + locked send mutexes */
static unsigned char *zbuf; static size_t zcap;
static void clip_print_extra(void) {
  int i, first = 1;
  printf(" out=[");
  for (i = 0; i < MAXC; i++) {
    conn *c = &C[i];
    if (!c->used || c->is_rc || !c->dec_on) continue;
    while (c->out.n - c->out.rd >= 1) {
      unsigned char *m = c->out.p + c->out.rd; size_t have = c->out.n - c->out.rd;
      char t[2 * SHOWLEN + 32];
      if (m[0] != 3) { printf("%s%d:?%d", first ? "" : ";", c->id, m[0]); first = 0; c->out.rd = c->out.n; break; }
      if (have < 8) break;
      { uint32_t l32 = vs_get32(m + 4); int ext = (l32 & 0x80000000u) != 0; uint32_t L = ext ? (uint32_t)(-(int32_t)l32) : l32;
        if (have < 8 + (size_t)L) break;
        if (!ext) { fmt_text(t, m + 8, L); printf("%s%d:0:%u:%s", first ? "" : ";", c->id, L, t); }
        else {
          uint32_t flags = L >= 4 ? vs_get32(m + 8) : 0;
          if (L >= 4 && (flags & rfbExtendedClipboard_Provide) && !(flags & rfbExtendedClipboard_Caps)) {
            /* inflate the whole stream with the real zlib */
            z_stream zs; int rc; size_t outn = 4;
            memset(&zs, 0, sizeof zs);
            if (zcap < 4096) { zcap = 4096; zbuf = (unsigned char *)realloc(zbuf, zcap); }
            memcpy(zbuf, m + 8, 4);
            inflateInit(&zs); zs.next_in = m + 12; zs.avail_in = L - 4;
            do {
              if (zcap - outn < 65536) { zcap = zcap * 2 + 65536; zbuf = (unsigned char *)realloc(zbuf, zcap); }
              zs.next_out = zbuf + outn; zs.avail_out = (uInt)(zcap - outn);
              rc = inflate(&zs, Z_NO_FLUSH);
              outn = zcap - zs.avail_out;
            } while (rc == Z_OK && zs.avail_in > 0);
            inflateEnd(&zs);
            fmt_text(t, zbuf, outn);
            printf("%s%d:2:%zu:%s%s", first ? "" : ";", c->id, outn, t, rc == Z_STREAM_END ? "" : ":badz");
          } else { fmt_text(t, m + 8, L); printf("%s%d:1:%u:%s", first ? "" : ";", c->id, L, t); }
        }
        first = 0; c->out.rd += 8 + L; }
    }
  }
  printf("] lk=[");
  first = 1;
  { rfbClientIteratorPtr it = rfbGetClientIterator(S); rfbClientPtr cl;
    while ((cl = rfbClientIteratorNext(it))) {
      int rc = pthread_mutex_trylock(&cl->sendMutex);
      if (rc == 0) pthread_mutex_unlock(&cl->sendMutex);
      else { printf("%s%d", first ? "" : ",", id_of(cl)); first = 0;
             pthread_mutex_unlock(&cl->sendMutex); }   /* reported; released so that the session can go on */
    }
    rfbReleaseClientIterator(it); }
  printf("]");
}

static unsigned char *hexbuf(const char *s, size_t *n) {
  size_t l = 0, i; unsigned char *b;
  while (s[l] && !isspace((unsigned char)s[l])) l++;
  if (l == 1 && s[0] == '-') { *n = 0; return (unsigned char *)calloc(1, 1); }
  *n = l / 2; b = (unsigned char *)malloc(*n + 1);
  for (i = 0; i < *n; i++) b[i] = (unsigned char)(hexval(s[2 * i]) * 16 + hexval(s[2 * i + 1]));
  return b;
}

static void rc_pump_server(void) { int k; for (k = 0; k < 8; k++) rfbProcessEvents(S, 0); }

/* returns 1 when the line was handled */
static int clip_op(const char *op, char *args) {
  int a[4], pos = 0;
  if (!strcmp(op, "zdef")) { printf("zdef\n"); return 1; }
  if (!strcmp(op, "pub")) {
    size_t n; unsigned char *b; while (*args == ' ') args++;
    b = hexbuf(args, &n);
    rfbSendServerCutText(S, (char *)b, (int)n); free(b);
    drain_all(); print_state("pub"); return 1;
  }
  if (!strcmp(op, "pubu")) {
    size_t n, fn = 0; unsigned char *b, *f = NULL; char *q;
    while (*args == ' ') args++;
    b = hexbuf(args, &n);
    q = args; while (*q && !isspace((unsigned char)*q)) q++; while (*q == ' ') q++;
    if (*q && *q != 'N') f = hexbuf(q, &fn);
    rfbSendServerCutTextUTF8(S, (char *)b, (int)n, (char *)f, (int)fn);
    free(b); free(f);
    drain_all(); print_state("pubu"); return 1;
  }
  if (!strcmp(op, "hsdone")) {
    conn *c; sscanf(args, "%d", &a[0]); c = by_id(a[0]);
    drain_all();
    if (c) { c->out.rd = c->out.n; c->dec_on = 1; }
    print_state("hsdone"); return 1;
  }
  if (!strcmp(op, "rc_connect")) {
    int sv[2], i, sz = 4 << 20; conn *c = NULL; rfbClient *cl;
    if (sscanf(args, "%d %d", &a[0], &a[1]) != 2) return 0;
    for (i = 0; i < MAXC; i++) if (!C[i].used) { c = &C[i]; break; }
    if (!c || by_id(a[0]) || socketpair(AF_UNIX, SOCK_STREAM, 0, sv) < 0) { printf("?? rc_connect\n"); return 1; }
    fcntl(sv[1], F_SETFL, fcntl(sv[1], F_GETFL) | O_NONBLOCK);
    setsockopt(sv[0], SOL_SOCKET, SO_SNDBUF, &sz, sizeof sz); setsockopt(sv[1], SOL_SOCKET, SO_RCVBUF, &sz, sizeof sz);
    setsockopt(sv[1], SOL_SOCKET, SO_SNDBUF, &sz, sizeof sz); setsockopt(sv[0], SOL_SOCKET, SO_RCVBUF, &sz, sizeof sz);
    memset(c, 0, sizeof *c);
    c->used = 1; c->id = a[0]; c->sfd = sv[0]; c->pfd = sv[1]; c->is_rc = 1;
    rfbEnableClientLogging = FALSE;
    cl = rfbGetClient(8, 3, 4);
    cl->GotXCutText = rc_got_cut;
    cl->FinishedFrameBufferUpdate = rc_finished_update;
    cl->GotXCutTextUTF8 = a[1] ? rc_got_cut_utf8 : NULL;
    cl->sock = sv[1];
    cl->canHandleNewFBSize = FALSE;
    cl->readTimeout = 5;     /* a message that never completes makes the client give up instead of spinning */
    c->rc = cl;
    write(sv[1], "", 0);
    next_id = a[0]; next_vo = 0;
    c->cl = (rfbClientPtr)1;
    /* the client speaks first only after the server's version: create the server side, then handshake */
    c->cl = rfbNewClient(S, sv[0]);
    if (!InitialiseRFBConnection(cl)) ev_add("RCFAIL");
    else {
      cl->width = cl->si.framebufferWidth; cl->height = cl->si.framebufferHeight;
      cl->updateRect.x = cl->updateRect.y = 0; cl->updateRect.w = cl->width; cl->updateRect.h = cl->height;
      if (!cl->MallocFrameBuffer(cl) || !SetFormatAndEncodings(cl)) ev_add("RCFAIL");   /* as rfbInitClient does */
    }
    rc_pump_server();
    print_state("rc_connect"); return 1;
  }
  if (!strcmp(op, "rc_cut") || !strcmp(op, "rc_utf8")) {
    size_t n; unsigned char *b; conn *c; int p2 = 0; rfbBool ok;
    if (sscanf(args, "%d %n", &a[0], &p2) < 1) return 0;
    c = by_id(a[0]); b = hexbuf(args + p2, &n);
    if (c && c->is_rc && c->rc) {
      if (!strcmp(op, "rc_cut")) ok = SendClientCutText((rfbClient *)c->rc, (char *)b, (int)n);
      else ok = SendClientCutTextUTF8((rfbClient *)c->rc, (char *)b, (int)n);
      if (!ok) { char e[32]; sprintf(e, "SF:%d", c->id); ev_add(e); }
    }
    free(b);
    print_state(op); return 1;
  }
  if (!strcmp(op, "rc_fur")) {       /* the client asks for (and, at its next pump, digests) a full framebuffer update */
    conn *c; sscanf(args, "%d", &a[0]); c = by_id(a[0]);
    if (c && c->is_rc && c->rc) {
      rfbClient *cl = (rfbClient *)c->rc;
      if (!SendFramebufferUpdateRequest(cl, 0, 0, cl->width, cl->height, FALSE)) { char e[32]; sprintf(e, "SF:%d", c->id); ev_add(e); }
    }
    print_state("rc_fur"); return 1;
  }
  if (!strcmp(op, "rc_sched")) {
    conn *c; int p2 = 0; const char *q;
    if (sscanf(args, "%d %n", &a[0], &p2) < 1) return 0;
    c = by_id(a[0]);
    wsched_n = wsched_i = 0; wsched_fd = -1;
    if (c && c->is_rc && c->rc) {
      wsched_fd = ((rfbClient *)c->rc)->sock;
      for (q = args + p2; *q && wsched_n < MAXSCHED; ) {
        wsched[wsched_n++] = strtol(q, (char **)&q, 10);
        if (*q == ',') q++; else break;
      }
    }
    print_state("rc_sched"); return 1;
  }
  if (!strcmp(op, "rc_pump")) {
    conn *c; sscanf(args, "%d", &a[0]); c = by_id(a[0]);
    if (c && c->is_rc && c->rc && c->cl) {
      rfbClient *cl = (rfbClient *)c->rc; int guard = 0, gaveup = 0, k;
      rc_updates = 0; rc_cur = c;
      in_pump = 1;      /* only what the server already wrote is consumed */
      while (guard++ < 1000 && (cl->buffered > 0 || WaitForMessage(cl, 0) > 0)) {
        if (getenv("VDRV_DEBUG")) { int nb = 0; ioctl(cl->sock, FIONREAD, &nb); fprintf(stderr, "pump %d: buffered=%d sock=%d first=%d\n", c->id, cl->buffered, nb, cl->buffered > 0 ? (unsigned char)cl->bufoutptr[0] : -1); }
        if (!HandleRFBServerMessage(cl)) {
          gaveup = 1;
          if (cl->sock == wsched_fd) wsched_fd = -1;
          close(cl->sock); cl->sock = -1; c->pfd = -1; rfbClientCleanup(cl); c->rc = NULL;
          break;
        }
      }
      in_pump = 0;
      for (k = 0; k < rc_updates; k++) { char e[32]; sprintf(e, "GF:%d", c->id); ev_add(e); }
      if (gaveup) { char e[32]; sprintf(e, "GD:%d", c->id); ev_add(e); }
    }
    print_state("rc_pump"); return 1;
  }
  (void)pos;
  return 0;
}
