/* vdrv_life.c - C12 lifecycle driver: runs a lifecycle script against the real libvncserver
 * (application-driven event loop, socketpair connections on fixed descriptor numbers) and prints
 * one canonical observation line per operation, in the same format as ocaml/driver_C12.ml.
 *
 * Link-time wraps (read, write, recv, select, close, open, pthread_mutex_lock/unlock/destroy):
 *   - every read()/write()/recv() the library issues on a server-side client descriptor is a
 *     "counted I/O call" with a global index; the script can inject a fault at any index
 *     (e = EOF / write returns 0, r = ECONNRESET, a = EAGAIN until the library's timeout expires);
 *   - select() runs in virtual time (zero real timeout: nothing can become ready while the single
 *     threaded harness is inside the library, so polling once is equivalent to waiting);
 *   - close() calls are logged per connection; close(-1) calls are counted;
 *   - a second lock of a mutex already held (single thread => self-deadlock for ever) is reported
 *     as HUNG instead of hanging.
 *
 * Script ops (one per line; a case starts with "case <n> ..."):
 *   config W H AUTH ALWAYS NEVER DONTDISC XVPHOOK FT   new screen
 *   accept a|h|r [hex|closed]                   rfbNewClient on a new socketpair (decision of newClientHook)
 *   in K hex | peerclose K | pe | appclose K | start K | refuse K | mark | bell | cuttext | cuttext8
 *   appxvp K | fault IDX e|r|a | shutdown | cleanup | end
 */
#include "vsess.h"
#include <pthread.h>
#include <stdarg.h>
#include <setjmp.h>
#include <signal.h>
#include <sys/wait.h>
#include <sanitizer/lsan_interface.h>
#include <sys/resource.h>

#define MAXC 40
#define FDBASE 200
#define LISTEN_FD 190      /* read end of a pipe standing in for the listening socket */
#define LISTEN_WR 191
#define HTTP_FD 192        /* stand-in for the HTTP listening socket (pipe) */
#define HTTP_WR 193
#define MAXF 16

typedef struct {
  rfbClientPtr cl; int used, freed, memfreed, nnew, ngone, nclose, sfd, pfd, peer_open, nwr, appfd, http, inetd; vs_buf rx;
} conn_t;

static conn_t C[MAXC];
static int nconn;
static rfbScreenInfoPtr S;
static int cleaned, hung, g_ioc, g_bad, g_busy, g_trace;
static int fault_idx[MAXF], fault_kind[MAXF], nfault;
static int force_to_fd = -1;
static int again_fd = -1; static const void *again_buf; static size_t again_n;
static char evlog[4096];
static int next_decision;
static int cfg_w, cfg_h, cfg_ft;
static jmp_buf hang_jmp;
static int in_lib;
static int lib_fds[64], nlib_fds;
/* connections waiting on the listening descriptor: decision of newClientHook, bytes already sent, peer closed */
typedef struct { int decision; int closed; int npre; unsigned char pre[1024]; } pend_t;
static pend_t pend[MAXC]; static int npend, pend_head;
static pend_t hpend[MAXC]; static int nhpend, hpend_head;     /* peers waiting on the HTTP listening descriptor */
static int g_setfl, setfl_fail[MAXF], nsetfl_fail;           /* fcntl(F_SETFL) calls of the library on connection descriptors */
static int g_inetd_k = -1;
static int g_setfl_oneshot;      /* n > 0: the n-th next F_SETFL on a connection descriptor fails (decision 'n' / 'm') */
static int g_devnull = -1, g_lost;

ssize_t __real_read(int, void *, size_t);
ssize_t __real_write(int, const void *, size_t);
ssize_t __real_recv(int, void *, size_t, int);
int __real_select(int, fd_set *, fd_set *, fd_set *, struct timeval *);
int __real_close(int);
int __real_accept(int, struct sockaddr *, socklen_t *);
int __real_open(const char *, int, ...);
int __real_fcntl(int, int, ...);
int __real_fcntl64(int, int, ...);
int __real_pthread_mutex_lock(pthread_mutex_t *);
int __real_pthread_mutex_unlock(pthread_mutex_t *);
int __real_pthread_mutex_destroy(pthread_mutex_t *);
void __real_free(void *);

static void ev(const char *fmt, int k) {
  size_t n = strlen(evlog);
  if (n + 16 < sizeof evlog) snprintf(evlog + n, sizeof evlog - n, n ? ",%s%d" : "%s%d", fmt, k);
}

static int conn_of_sfd(int fd) {
  if (fd >= FDBASE && fd < FDBASE + 2 * MAXC && ((fd - FDBASE) & 1) == 0) {
    int k = (fd - FDBASE) / 2;
    if (k < nconn && C[k].used) return k;
  }
  return -1;
}

static int fault_hit[MAXC];
static int fault_for_k(int idx, int k) {
  int i;
  for (i = 0; i < nfault; i++) if (fault_idx[i] == idx) { if (k >= 0 && k < MAXC) fault_hit[k] = 1; return fault_kind[i]; }
  return 0;
}
#define fault_for(idx) fault_for_k(idx, k)

ssize_t __wrap_read(int fd, void *buf, size_t n) {
  int k = in_lib ? conn_of_sfd(fd) : -1;
  if (k >= 0) {
    int idx = g_ioc++, f = fault_for(idx);
    force_to_fd = -1; again_fd = -1;
    if (g_trace) fprintf(stderr, "  io %d read fd=%d k=%d n=%zu fault=%c\n", idx, fd, k, n, f ? f : '-');
    if (f == 'e') return 0;
    if (f == 'r') { errno = ECONNRESET; return -1; }
    if (f == 'a') { force_to_fd = fd; errno = EAGAIN; return -1; }
  }
  return __real_read(fd, buf, n);
}

ssize_t __wrap_recv(int fd, void *buf, size_t n, int flags) {
  int k = in_lib ? conn_of_sfd(fd) : -1;
  if (k >= 0) {
    int idx = g_ioc++, f = fault_for(idx);
    force_to_fd = -1; again_fd = -1;
    if (g_trace) fprintf(stderr, "  io %d recv fd=%d k=%d n=%zu fault=%c\n", idx, fd, k, n, f ? f : '-');
    if (f == 'e') return 0;
    if (f == 'r') { errno = ECONNRESET; return -1; }
    if (f == 'a') { force_to_fd = fd; errno = EAGAIN; return -1; }
  }
  return __real_recv(fd, buf, n, flags);
}

ssize_t __wrap_write(int fd, const void *buf, size_t n) {
  int k = in_lib ? conn_of_sfd(fd) : -1;
  if (k >= 0) {
    int idx = g_ioc++, f = fault_for(idx);
    ssize_t r;
    force_to_fd = -1;
    if (again_fd == fd && again_buf == buf && again_n == n) f = 'a';   /* retry of the blocked write */
    else again_fd = -1;
    if (f == 'a') { again_fd = fd; again_buf = buf; again_n = n; }
    if (g_trace) fprintf(stderr, "  io %d write fd=%d k=%d n=%zu fault=%c\n", idx, fd, k, n, f ? f : '-');
    if (f == 'e') return 0;
    if (f == 'r') { errno = ECONNRESET; return -1; }
    if (f == 'a') { force_to_fd = fd; errno = EAGAIN; return -1; }
    r = __real_write(fd, buf, n);
    if (r == (ssize_t)n) C[k].nwr++;
    return r;
  }
  return __real_write(fd, buf, n);
}

int __wrap_select(int n, fd_set *r, fd_set *w, fd_set *e, struct timeval *tv) {
  struct timeval z = {0, 0};
  if (in_lib && force_to_fd >= 0 && n == force_to_fd + 1) {   /* injected would-block: wait expires */
    if (r) FD_ZERO(r);
    if (w) FD_ZERO(w);
    if (e && e != r) FD_ZERO(e);
    return 0;
  }
  return __real_select(n, r, w, e, &z);
}

int __wrap_close(int fd) {
  if (in_lib) {
    int k = conn_of_sfd(fd), i;
    if (k >= 0) { C[k].nclose++; ev("X", k); }
    else if (fd < 0) { g_bad++; }
    for (i = 0; i < nlib_fds; i++) if (lib_fds[i] == fd) lib_fds[i] = -1;
  }
  return __real_close(fd);
}

static int make_conn(int closed, const unsigned char *pre, int npre) {
  int sv[2], k; conn_t *c;
  if (nconn >= MAXC) return -1;
  socketpair(AF_UNIX, SOCK_STREAM, 0, sv);
  k = nconn++; c = &C[k]; memset(c, 0, sizeof *c);
  c->sfd = FDBASE + 2 * k; c->pfd = FDBASE + 2 * k + 1;
  dup2(sv[0], c->sfd); dup2(sv[1], c->pfd); __real_close(sv[0]); __real_close(sv[1]);
  fcntl(c->pfd, F_SETFL, fcntl(c->pfd, F_GETFL) | O_NONBLOCK);
  { int sz = 4 << 20; setsockopt(c->sfd, SOL_SOCKET, SO_SNDBUF, &sz, sizeof sz);
    setsockopt(c->pfd, SOL_SOCKET, SO_RCVBUF, &sz, sizeof sz); }
  c->used = 1; c->peer_open = 1;
  if (closed) { __real_close(c->pfd); c->peer_open = 0; }
  else if (npre > 0) __real_write(c->pfd, pre, npre);
  return k;
}

/* accept() on the stand-in listening descriptor hands out the next waiting connection */
int __wrap_accept(int fd, struct sockaddr *a, socklen_t *l) {
  if (in_lib && fd == LISTEN_FD) {
    char b; int k; pend_t *p;
    if (pend_head >= npend) { errno = EAGAIN; return -1; }
    __real_read(LISTEN_FD, &b, 1);
    p = &pend[pend_head++];
    k = make_conn(p->closed, p->pre, p->npre);
    if (k < 0) { errno = EMFILE; return -1; }
    next_decision = p->decision;
    g_setfl_oneshot = p->decision == 'n' ? 1 : p->decision == 'm' ? 2 : 0;   /* rfbSetNonBlocking fails: 1st call (rfbNewConnectionFromSock) / 2nd (rfbNewClient) */
    return C[k].sfd;
  }
  if (in_lib && fd == HTTP_FD) {
    char b; int k; pend_t *p;
    if (hpend_head >= nhpend) { errno = EAGAIN; return -1; }
    __real_read(HTTP_FD, &b, 1);
    p = &hpend[hpend_head++];
    k = make_conn(p->closed, p->pre, p->npre);
    if (k < 0) { errno = EMFILE; return -1; }
    C[k].http = 1 + p->decision;          /* decision of newClientHook if it is handed over to the RFB server */
    return C[k].sfd;
  }
  return __real_accept(fd, a, l);
}

/* fcntl(F_SETFL) on a connection descriptor (rfbSetNonBlocking): the script can make the n-th one fail */
static int setfl_hook(int fd, int cmd) {
  if (in_lib && cmd == F_SETFL && conn_of_sfd(fd) >= 0) {
    int idx = g_setfl++, i;
    if (g_setfl_oneshot > 0 && --g_setfl_oneshot == 0) { errno = EINVAL; return 1; }
    for (i = 0; i < nsetfl_fail; i++) if (setfl_fail[i] == idx) { errno = EINVAL; return 1; }
  }
  return 0;
}
int __wrap_fcntl(int fd, int cmd, ...) {
  va_list ap; long arg;
  va_start(ap, cmd); arg = va_arg(ap, long); va_end(ap);
  if (setfl_hook(fd, cmd)) return -1;
  return __real_fcntl(fd, cmd, arg);
}
int __wrap_fcntl64(int fd, int cmd, ...) {
  va_list ap; long arg;
  va_start(ap, cmd); arg = va_arg(ap, long); va_end(ap);
  if (setfl_hook(fd, cmd)) return -1;
  return __real_fcntl64(fd, cmd, arg);
}

int __wrap_open(const char *path, int flags, int mode) {
  int fd = __real_open(path, flags, mode);
  if (in_lib && fd >= 0 && nlib_fds < 64) lib_fds[nlib_fds++] = fd;
  return fd;
}

/* the record of a connection is released: remember it (independently of the gone hook) */
void __wrap_free(void *p) {
  if (p && in_lib) {
    int k;
    for (k = 0; k < nconn; k++) if (C[k].used && C[k].cl == (rfbClientPtr)p) { C[k].freed = 1; C[k].memfreed++; }
  }
  __real_free(p);
}

/* ---- mutex bookkeeping: single thread, so a re-lock never returns */
#define MAXM 64
static pthread_mutex_t *held[MAXM];
static int nheld;
int __wrap_pthread_mutex_lock(pthread_mutex_t *m) {
  int i;
  for (i = 0; i < nheld; i++) if (held[i] == m) { nheld = 0; longjmp(hang_jmp, 1); }
  if (nheld < MAXM) held[nheld++] = m;
  return __real_pthread_mutex_lock(m);
}
int __wrap_pthread_mutex_unlock(pthread_mutex_t *m) {
  int i;
  for (i = 0; i < nheld; i++) if (held[i] == m) { held[i] = held[--nheld]; break; }
  return __real_pthread_mutex_unlock(m);
}
int __wrap_pthread_mutex_destroy(pthread_mutex_t *m) {
  int i;
  for (i = 0; i < nheld; i++) if (held[i] == m) { held[i] = held[--nheld]; g_busy++; __real_pthread_mutex_unlock(m); break; }
  return __real_pthread_mutex_destroy(m);
}

/* ---- application callbacks (decisions are scripted / encoded in the message content) */
static int conn_of_cl(rfbClientPtr cl) {
  int k;
  for (k = nconn - 1; k >= 0; k--) if (C[k].used && !C[k].memfreed && C[k].cl == cl) return k;
  return -1;
}
static void gone_hook(rfbClientPtr cl) {
  int k = conn_of_cl(cl);
  if (k >= 0) {
    C[k].ngone++; ev("G", k);
    /* the application opens something inside the hook and gets the descriptor number the connection
       just gave back: a second close() of that number by the library would destroy it */
    if (!C[k].appfd && g_devnull >= 0 && fcntl(C[k].sfd, F_GETFD) == -1) { dup2(g_devnull, C[k].sfd); C[k].appfd = 1; }
  }
}
static enum rfbNewClientAction new_hook(rfbClientPtr cl) {
  int k = conn_of_sfd(cl->sock);      /* the connection being accepted (or handed over by the HTTP server) */
  if (k < 0) k = nconn - 1;
  if (C[k].http) next_decision = C[k].http - 1;
  C[k].cl = cl; C[k].nnew++; ev("N", k);
  cl->clientGoneHook = gone_hook;
  if (next_decision == 'h') return RFB_CLIENT_ON_HOLD;
  if (next_decision == 'r') return RFB_CLIENT_REFUSE;
  return RFB_CLIENT_ACCEPT;
}
static void kbd_hook(rfbBool down, rfbKeySym key, rfbClientPtr cl) {
  if (key == 0xC105E) rfbCloseClient(cl);
}
static void ptr_hook(int mask, int x, int y, rfbClientPtr cl) {
  if (mask == 0x55) rfbCloseClient(cl);   /* coordinates arrive scaled (ScaleX/ScaleY): not part of the decision */
}
static void cut_hook(char *str, int len, rfbClientPtr cl) {
  if (len > 0 && str[0] == 'X') rfbCloseClient(cl);
}
static rfbBool pw_hook(rfbClientPtr cl, const char *resp, int len) {
  if (resp[0] == 2) { rfbCloseClient(cl); return FALSE; }
  return resp[0] == 1;
}
static rfbBool xvp_hook(rfbClientPtr cl, uint8_t ver, uint8_t code) {
  if (code == 4) { rfbCloseClient(cl); return FALSE; }
  if (code == 5) { rfbCloseClient(cl); return TRUE; }
  return code == 2;
}
static int ftperm_hook(rfbClientPtr cl) { return TRUE; }

/* ---- helpers */
static int unhex(const char *s, unsigned char *out, int cap) {
  int n = 0;
  while (s[0] && s[1] && n < cap) {
    unsigned v; if (sscanf(s, "%2x", &v) != 1) break;
    out[n++] = (unsigned char)v; s += 2;
  }
  return n;
}
static void drain_all(void) {
  int k;
  for (k = 0; k < nconn; k++) if (C[k].used && C[k].peer_open) {
    unsigned char tmp[65536]; ssize_t r;
    for (;;) {
      r = __real_read(C[k].pfd, tmp, sizeof tmp);
      if (r > 0) { vs_buf_add(&C[k].rx, tmp, (size_t)r); continue; }
      break;
    }
  }
}
static int fd_is_open(int fd) { return fcntl(fd, F_GETFD) != -1; }
static int sock_open(conn_t *c) { return !c->appfd && fd_is_open(c->sfd); }

static const char *resbits(rfbClientPtr cl, char *b) {
  int i, zs = 0;
  for (i = 0; i < 4; i++) if (cl->zsActive[i]) zs = 1;
  sprintf(b, "%s%s%s%s%s%s%s%s",
          cl->compStreamInited ? "Z" : "", cl->beforeEncBuf ? "B" : "", cl->afterEncBuf ? "A" : "",
          cl->zrleData ? "R" : "", cl->translateLookupTable ? "T" : "", zs ? "S" : "",
          cl->fileTransfer.fd != -1 ? "F" : "", "");
  return b;
}

static void observe(const char *op) {
  int k; char rb[32];
  drain_all();
  printf("%s io=%d ev=[%s] bad=%d", op, g_ioc, evlog, g_bad);
  evlog[0] = 0;
  if (hung) { printf(" HUNG\n"); return; }
  if (S && !cleaned) {
    int p = S->pointerClient ? conn_of_cl(S->pointerClient) : -1;
    rfbScreenInfoPtr sc; int first = 1;
    printf(" ref=%d max=%d ptr=%d sc=[", S->scaledScreenRefCount, S->maxFd, p);
    for (sc = S->scaledScreenNext; sc; sc = sc->scaledScreenNext) { printf(first ? "%dx%d:%d" : ";%dx%d:%d", sc->width, sc->height, sc->scaledScreenRefCount); first = 0; }
    printf("]");
  } else printf(" ref=- max=- ptr=- sc=-");
  for (k = 0; k < nconn; k++) {
    conn_t *c = &C[k];
    if (c->inetd && !c->cl && !c->freed && !c->nclose) continue;
    if (c->http && !c->cl && !c->freed && !c->nclose) {
      printf(" | %d:http,n%d,g%d,x%d,w%d,fd%d", k, c->nnew, c->ngone, c->nclose, c->nwr, sock_open(c));    /* waiting as httpSock */
    } else if (c->freed || !c->cl) {
      printf(" | %d:freed,n%d,g%d,x%d,w%d,fd%d", k, c->nnew, c->ngone, c->nclose, c->nwr, sock_open(c));
    } else if (cleaned) {
      printf(" | %d:lost,n%d,g%d,x%d,w%d,fd%d", k, c->nnew, c->ngone, c->nclose, c->nwr, sock_open(c));
    } else {
      rfbClientPtr cl = c->cl; rfbClientPtr it; int inlist = 0;
      for (it = S->clientHead; it; it = it->next) if (it == cl) inlist = 1;
      char zb[32];
      if (cl->scaledScreen != cl->screen) sprintf(zb, "%dx%d", cl->scaledScreen->width, cl->scaledScreen->height); else strcpy(zb, "-");
      printf(" | %d:s%d,%s,h%d,n%d,g%d,x%d,w%d,L%d,F%d,q%d,m%d,e%d,r%s,z%s,fd%d", k, (int)cl->state,
             cl->sock == -1 ? "c" : "o", cl->onHold ? 1 : 0, c->nnew, c->ngone, c->nclose, c->nwr, inlist,
             FD_ISSET(c->sfd, &S->allFds) ? 1 : 0, sraRgnEmpty(cl->requestedRegion) ? 0 : 1,
             sraRgnEmpty(cl->modifiedRegion) ? 0 : 1, (int)cl->preferredEncoding, resbits(cl, rb), zb,
             sock_open(c));
    }
  }
  if (S && !cleaned) {            /* client iteration contents (public iterator: open clients only) */
    rfbClientIteratorPtr it = rfbGetClientIterator(S); rfbClientPtr cl; int first = 1;
    printf(" | it=[");
    while ((cl = rfbClientIteratorNext(it))) { printf(first ? "%d" : ",%d", conn_of_cl(cl)); first = 0; }
    rfbReleaseClientIterator(it);
    printf("]");
  }
  printf("\n");
}

static void new_screen(int w, int h, int auth, int always, int never, int dontdisc, int xvp, int ft, int http) {
  int argc = 0; static char *pwlist[] = {"x", NULL};
  S = rfbGetScreen(&argc, NULL, w, h, 8, 3, 4);
  S->frameBuffer = (char *)calloc((size_t)w * h, 4);
  { int i; for (i = 0; i < w * h; i++) ((uint32_t *)S->frameBuffer)[i] = 0x00102030u + (uint32_t)i * 0x010203u; }
  S->port = 0; S->ipv6port = 0; S->autoPort = FALSE; S->httpPort = 0; S->http6Port = 0; S->httpDir = NULL;
  S->deferUpdateTime = 0; S->deferPtrUpdateTime = 0; S->desktopName = "life";
  S->newClientHook = new_hook; S->kbdAddEvent = kbd_hook; S->ptrAddEvent = ptr_hook; S->setXCutText = cut_hook;
  S->alwaysShared = always; S->neverShared = never; S->dontDisconnect = dontdisc;
  rfbSetCursor(S, NULL);            /* no soft cursor: updates carry framebuffer pixels only (frees the screen's default copy) */
  if (auth) { S->authPasswdData = pwlist; S->passwordCheck = pw_hook; }
  if (xvp) S->xvpHook = xvp_hook;
  if (ft) { S->permitFileTransfer = TRUE; S->getFileTransferPermission = ftperm_hook; }
  rfbInitServer(S);
  { int pp[2]; pipe(pp); dup2(pp[0], LISTEN_FD); dup2(pp[1], LISTEN_WR); __real_close(pp[0]); __real_close(pp[1]);
    fcntl(LISTEN_FD, F_SETFL, fcntl(LISTEN_FD, F_GETFL) | O_NONBLOCK);
    S->listenSock = LISTEN_FD; FD_SET(LISTEN_FD, &S->allFds); if (LISTEN_FD > S->maxFd) S->maxFd = LISTEN_FD; }
  if (http) {    /* HTTP server with proxy hand-over, listening on a stand-in descriptor */
    int pp[2]; pipe(pp); dup2(pp[0], HTTP_FD); dup2(pp[1], HTTP_WR); __real_close(pp[0]); __real_close(pp[1]);
    fcntl(HTTP_FD, F_SETFL, fcntl(HTTP_FD, F_GETFL) | O_NONBLOCK);
    S->httpDir = "/nonexistent-verif-httpdir"; S->httpInitDone = TRUE; S->httpEnableProxyConnect = TRUE;
    S->httpListenSock = HTTP_FD; S->httpPort = 5800; S->port = 5900;
  }
  if (g_devnull < 0) g_devnull = __real_open("/dev/null", O_RDONLY, 0);
  cfg_w = w; cfg_h = h; cfg_ft = ft;
}

static void reset_case(void) {
  int k, i;
  for (k = 0; k < nconn; k++) if (C[k].used) {
    if (C[k].peer_open) __real_close(C[k].pfd);
    if (fd_is_open(C[k].sfd)) __real_close(C[k].sfd);    /* abandoned (hung / lost) */
    free(C[k].rx.p);
  }
  for (i = 0; i < nlib_fds; i++) if (lib_fds[i] >= 0 && fd_is_open(lib_fds[i])) __real_close(lib_fds[i]);
  if (fd_is_open(LISTEN_FD)) __real_close(LISTEN_FD);
  if (fd_is_open(LISTEN_WR)) __real_close(LISTEN_WR);
  if (fd_is_open(HTTP_FD)) __real_close(HTTP_FD);
  if (fd_is_open(HTTP_WR)) __real_close(HTTP_WR);
  g_setfl_oneshot = 0;
  npend = 0; pend_head = 0; nhpend = 0; hpend_head = 0; g_setfl = 0; nsetfl_fail = 0; g_inetd_k = -1;
  memset(C, 0, sizeof C); memset(fault_hit, 0, sizeof fault_hit);
  nconn = 0; S = NULL; cleaned = 0; hung = 0; g_ioc = 0; g_bad = 0; g_busy = 0; nfault = 0; force_to_fd = -1;
  evlog[0] = 0; nheld = 0; nlib_fds = 0;
}

#define LIB(stmt) do { in_lib = 1; stmt; in_lib = 0; } while (0)

static void do_op(char *line) {
  char op[32] = "", a1[64] = "", a2[70000] = "";
  int k;
  sscanf(line, "%31s %63s %69999s", op, a1, a2);
  again_fd = -1; force_to_fd = -1;
  if (hung && strcmp(op, "end") != 0) { observe(op); return; }
  if (!strcmp(op, "config")) {
    int w = 8, h = 8, auth = 0, al = 0, ne = 0, dd = 0, xv = 0, ft = 0, http = 0;
    sscanf(line, "config %d %d %d %d %d %d %d %d %d", &w, &h, &auth, &al, &ne, &dd, &xv, &ft, &http);
    new_screen(w, h, auth, al, ne, dd, xv, ft, http);
  } else if (!S || cleaned) {
    if (strcmp(op, "end") != 0) { observe(op); return; }
  } else if (!strcmp(op, "accept")) {
    conn_t *c; rfbClientPtr cl; static unsigned char b[8192]; int n = 0, closed = !strcmp(a2, "closed");
    if (!closed && a2[0]) n = unhex(a2, b, sizeof b);
    k = make_conn(closed, b, n);
    if (k < 0) { observe("accept-overflow"); return; }
    c = &C[k];
    next_decision = a1[0];
    g_setfl_oneshot = (a1[0] == 'n' || a1[0] == 'm') ? 1 : 0;          /* rfbSetNonBlocking fails inside rfbNewClient */
    LIB(cl = rfbNewClient(S, c->sfd));
    g_setfl_oneshot = 0;
    if (!cl) { c->freed = 1; c->cl = NULL; } else c->cl = cl;
  } else if (!strcmp(op, "laccept")) {
    if (npend < MAXC && fd_is_open(LISTEN_WR)) {
      pend_t *p = &pend[npend++];
      p->decision = a1[0]; p->closed = !strcmp(a2, "closed");
      p->npre = (!p->closed && a2[0]) ? unhex(a2, p->pre, sizeof p->pre) : 0;
      __real_write(LISTEN_WR, "c", 1);
    }
  } else if (!strcmp(op, "haccept")) {
    /* a peer connects to the HTTP port; a2 = everything it sends (request and what follows) */
    if (nhpend < MAXC && fd_is_open(HTTP_WR)) {
      pend_t *p = &hpend[nhpend++];
      p->decision = a1[0]; p->closed = !strcmp(a2, "closed");
      p->npre = (!p->closed && a2[0]) ? unhex(a2, p->pre, sizeof p->pre) : 0;
      __real_write(HTTP_WR, "c", 1);
    }
  } else if (!strcmp(op, "setflfail")) {
    if (nsetfl_fail < MAXF) setfl_fail[nsetfl_fail++] = atoi(a1);
  } else if (!strcmp(op, "inetd")) {
    /* the application was started by inetd: the connection is screen->inetdSock; rfbInitSockets + first
       rfbProcessEvents turn it into a client (a1 = decision of newClientHook, a2 = bytes already sent) */
    static unsigned char b[1024]; int n = 0, closed = !strcmp(a2, "closed");
    if (!closed && a2[0]) n = unhex(a2, b, sizeof b);
    k = make_conn(closed, b, n);
    if (k >= 0) {
      next_decision = a1[0]; g_inetd_k = k; C[k].inetd = 1;          /* not a connection of the screen until rfbCheckFds hands it over (or rfbShutdownSockets closes it) */
      g_setfl_oneshot = (a1[0] == 'n' || a1[0] == 'm') ? 1 : 0;
      S->listenSock = -1;                                       /* an inetd server does not listen */
      S->inetdSock = C[k].sfd; S->inetdInitDone = FALSE;
      FD_ZERO(&S->allFds); FD_SET(C[k].sfd, &S->allFds); S->maxFd = C[k].sfd;   /* what rfbInitSockets does for inetdSock */
    }
  } else if (!strcmp(op, "in")) {
    k = atoi(a1);
    if (k < nconn && C[k].peer_open) { static unsigned char b[35000]; int n = unhex(a2, b, sizeof b); __real_write(C[k].pfd, b, n); }
  } else if (!strcmp(op, "peerclose")) {
    k = atoi(a1);
    if (k < nconn && C[k].peer_open) { drain_all(); __real_close(C[k].pfd); C[k].peer_open = 0; }
  } else if (!strcmp(op, "pe")) {
    LIB(rfbProcessEvents(S, 0));
    g_setfl_oneshot = 0;
  } else if (!strcmp(op, "appclose")) {
    k = atoi(a1);
    if (k < nconn && !C[k].freed && C[k].cl) LIB(rfbCloseClient(C[k].cl));
  } else if (!strcmp(op, "start")) {
    k = atoi(a1);
    if (k < nconn && !C[k].freed && C[k].cl) LIB(rfbStartOnHoldClient(C[k].cl));
  } else if (!strcmp(op, "refuse")) {
    k = atoi(a1);
    if (k < nconn && !C[k].freed && C[k].cl) LIB(rfbRefuseOnHoldClient(C[k].cl));
  } else if (!strcmp(op, "appxvp")) {
    k = atoi(a1);
    if (k < nconn && !C[k].freed && C[k].cl) LIB(rfbSendXvp(C[k].cl, 1, rfbXvp_Fail));
  } else if (!strcmp(op, "mark")) {
    LIB(rfbMarkRectAsModified(S, 0, 0, cfg_w, cfg_h));
  } else if (!strcmp(op, "bell")) {
    LIB(rfbSendBell(S));
  } else if (!strcmp(op, "cuttext")) {
    LIB(rfbSendServerCutText(S, "hello", 5));
  } else if (!strcmp(op, "cuttext8")) {
    LIB(rfbSendServerCutTextUTF8(S, "hello", 5, NULL, 0));
  } else if (!strcmp(op, "fault")) {
    if (nfault < MAXF) { fault_idx[nfault] = atoi(a1); fault_kind[nfault] = a2[0]; nfault++; }
  } else if (!strcmp(op, "shutdown")) {
    LIB(rfbShutdownServer(S, TRUE));
  } else if (!strcmp(op, "cleanup")) {
    char *fb = S->frameBuffer;
    drain_all();
    LIB(rfbScreenCleanup(S));
    free(fb); cleaned = 1;
  }
  if (!strcmp(op, "end")) {
    int leak, i, nfl = 0;
    if (S && !cleaned && !hung) { char *fb = S->frameBuffer; drain_all(); LIB(rfbScreenCleanup(S)); free(fb); cleaned = 1; }
    observe("end");
    for (i = 0; i < nlib_fds; i++) if (lib_fds[i] >= 0 && fd_is_open(lib_fds[i])) nfl++;
    for (k = 0; k < nconn; k++) if (C[k].used) {
      size_t j; printf("#rx %d %d ", k, fault_hit[k]);
      for (j = 0; j < C[k].rx.n; j++) printf("%02x", C[k].rx.p[j]);
      printf("\n");
    }
    { int lost = 0; for (k = 0; k < nconn; k++) if (C[k].used && C[k].appfd && !fd_is_open(C[k].sfd)) lost++;
      g_lost = lost; }
    { int was_hung = hung, busy = g_busy;
      reset_case();
      leak = __lsan_do_recoverable_leak_check();
      printf("#leak %d hung=%d\n", was_hung ? -1 : (leak ? 1 : 0), was_hung);
      printf("fin filefds=%d busy=%d appfds_lost=%d\n", nfl, busy, g_lost);
    }
    return;
  }
  observe(op);
}

static void run_line(char *line) {
  if (setjmp(hang_jmp)) {
    char op[32] = ""; sscanf(line, "%31s", op);
    in_lib = 0; hung = 1; observe(op);
    return;
  }
  do_op(line);
}

/* every case runs in its own child process: a crash or an abandoned (deadlocked / leaked) screen
 * of one case cannot influence the leak check or the descriptors of another */
static void run_case(char **lines, int n) {
  pid_t pid;
  int status = 0, i;
  fflush(stdout);
  pid = fork();
  if (pid == 0) {
    for (i = 0; i < n; i++) run_line(lines[i]);
    fflush(stdout);
    _exit(0);
  }
  if (pid < 0) { printf("#forkfail\n"); return; }
  while (waitpid(pid, &status, 0) < 0 && errno == EINTR) ;
  if (!(WIFEXITED(status) && WEXITSTATUS(status) == 0))
    printf("\n#crash status=%d\n<driver died: case aborted with status %d>\n", status, status);
  fflush(stdout);
}

int main(void) {
  static char line[80000];
  char **lines = NULL; int n = 0, cap = 0, i;
  vs_quiet();
  signal(SIGPIPE, SIG_IGN);
  { struct rlimit rl = {1024, 1024}; setrlimit(RLIMIT_NOFILE, &rl); }   /* rfbProcessNewConnection probes every descriptor number */
  g_trace = getenv("VDRV_TRACE") != NULL;
  setvbuf(stdout, NULL, _IOFBF, 1 << 16);
  for (;;) {
    char *r = fgets(line, sizeof line, stdin);
    size_t len = r ? strlen(line) : 0;
    while (len && (line[len - 1] == '\n' || line[len - 1] == '\r')) line[--len] = 0;
    if (!r || !strncmp(line, "case ", 5)) {
      if (n) { run_case(lines, n); for (i = 0; i < n; i++) free(lines[i]); n = 0; }
      if (!r) break;
      reset_case(); printf("%s\n", line);
      continue;
    }
    if (!len) continue;
    if (n == cap) { cap = cap ? cap * 2 : 64; lines = (char **)realloc(lines, cap * sizeof *lines); }
    lines[n++] = strdup(line);
  }
  fflush(stdout);
  _exit(0);
}
