/* C17 implementation driver: executes a scaling script against the library built from /repo and
 * prints one canonical observation line per operation (same format as ocaml/driver_C17.ml).
 * Real clients (socketpair sessions) send SetScale / PalmVNCSetScaleFactor / PointerEvent /
 * FramebufferUpdateRequest; the chain of scaled screens (sizes, reference counts, pixels) is read
 * from the screen structure; rfbScaledCorrection / ScaleX are also called directly. */
#include "vsess.h"
#include <signal.h>

#define MAXCL 6
static rfbScreenInfoPtr scr;
static int W, H, BPP;
static rfbClientPtr cls[MAXCL];
static int peers[MAXCL], gone[MAXCL], ncl;
static vs_buf bufs[MAXCL];
static char *pics[MAXCL]; static int picw[MAXCL], pich[MAXCL];
static char *line;
static int last_px, last_py, last_pb, have_ptr;
#define LINESZ (1 << 22)

static uint32_t getpixs(const char *fb, int stride, int x, int y) {
  uint32_t v = 0; memcpy(&v, fb + (size_t)y * stride + (size_t)x * BPP, BPP); return v;
}
static void setpix(char *fb, int x, int y, uint32_t v) { memcpy(fb + ((size_t)y * W + x) * BPP, &v, BPP); }

static void dumpfb(const char *fb, int stride, int w, int h) {
  int x, y;
  for (y = 0; y < h; y++) { if (y) putchar('/'); for (x = 0; x < w; x++) printf("%s%x", x ? "," : "", getpixs(fb, stride, x, y)); }
}

static void state(void) {
  rfbScreenInfoPtr p; int i, first = 1;
  printf("main=%dx%d:%d chain=[", scr->width, scr->height, scr->scaledScreenRefCount);
  for (p = scr->scaledScreenNext; p; p = p->scaledScreenNext) {
    printf("%s%dx%d:%d:", first ? "" : ";", p->width, p->height, p->scaledScreenRefCount);
    dumpfb(p->frameBuffer, p->paddedWidthInBytes, p->width, p->height);
    first = 0;
  }
  printf("] cl=[");
  for (i = 0; i < ncl; i++) {
    if (i) putchar(' ');
    if (gone[i]) printf("%d:dead", i); else printf("%d:%dx%d", i, cls[i]->scaledScreen->width, cls[i]->scaledScreen->height);
  }
  printf("]");
}

static void gone_hook(rfbClientPtr cl) { int i; for (i = 0; i < ncl; i++) if (cls[i] == cl) gone[i] = 1; }
static void ptr_hook(int mask, int x, int y, rfbClientPtr cl) { last_px = x; last_py = y; last_pb = mask; have_ptr++; rfbDefaultPtrAddEvent(mask, x, y, cl); }

static void drop_all(void) {
  int i;
  for (i = 0; i < ncl; i++) if (peers[i] >= 0) { close(peers[i]); peers[i] = -1; }
  if (scr) {
    char *fb = scr->frameBuffer;
    vs_pump(scr, 0, NULL, NULL);
    rfbScreenCleanup(scr); free(fb); scr = NULL;
  }
  for (i = 0; i < MAXCL; i++) { cls[i] = NULL; free(bufs[i].p); memset(&bufs[i], 0, sizeof bufs[i]); gone[i] = 0; free(pics[i]); pics[i] = NULL; }
  ncl = 0;
}

/* version line already in the socket when rfbNewClient runs (skips webSocketsCheck's 100 ms peek) */
static int fast_connect(int k) {
  int sv[2]; unsigned char m[16]; vs_buf *b = &bufs[k]; int peer;
  if (socketpair(AF_UNIX, SOCK_STREAM, 0, sv) < 0) return -1;
  fcntl(sv[1], F_SETFL, fcntl(sv[1], F_GETFL) | O_NONBLOCK);
  { int sz = 4 << 20; setsockopt(sv[0], SOL_SOCKET, SO_SNDBUF, &sz, sizeof sz); setsockopt(sv[1], SOL_SOCKET, SO_RCVBUF, &sz, sizeof sz); }
  peers[k] = peer = sv[1];
  vs_write(peer, "RFB 003.008\n", 12);
  cls[k] = rfbNewClient(scr, sv[0]);
  if (!cls[k]) return -1;
  vs_pump(scr, 1, &peer, b);
  if (b->n - b->rd < 12 + 2) return -2;
  b->rd += 12;
  { unsigned nt = b->p[b->rd]; b->rd += 1 + nt; }
  m[0] = 1; vs_write(peer, m, 1);
  vs_pump(scr, 1, &peer, b);
  if (b->n - b->rd < 4 || vs_get32(b->p + b->rd) != 0) return -3;
  b->rd += 4;
  m[0] = 1; vs_write(peer, m, 1);
  vs_pump(scr, 1, &peer, b);
  if (b->n - b->rd < 24) return -4;
  { uint32_t nl = vs_get32(b->p + b->rd + 20); b->rd += 24 + nl; }
  return 0;
}

static void pump(void) { vs_pump(scr, ncl, peers, bufs); }

/* walk one FramebufferUpdate message starting at offset o of peer k's buffer (Raw rectangles and the
 * cursor pseudo-rectangles); if pic != NULL store the Raw pixels there (size pw x ph) and print the
 * rectangle headers.  Returns the offset behind the message, 0 if it is incomplete / not understood. */
static size_t walk_fbu(int k, size_t o, char *pic, int pw, int ph, int verbose) {
  vs_buf *b = &bufs[k]; unsigned nr, r;
  if (b->n - o < 4 || b->p[o] != 0) return 0;
  nr = vs_get16(b->p + o + 2); o += 4;
  for (r = 0; r < nr; r++) {
    unsigned x, y, w, h, i, j; int32_t enc; size_t need;
    if (b->n - o < 12) return 0;
    x = vs_get16(b->p + o); y = vs_get16(b->p + o + 2); w = vs_get16(b->p + o + 4); h = vs_get16(b->p + o + 6);
    enc = (int32_t)vs_get32(b->p + o + 8);
    if (enc == 0) {
      need = (size_t)w * h * BPP;
      if (verbose) printf(" r=%u,%u,%u,%u", x, y, w, h);
      if (b->n - o - 12 < need) return 0;
      if (pic) {
        if (x + w > (unsigned)pw || y + h > (unsigned)ph) { if (verbose) printf(" OUTSIDE"); }
        else for (j = 0; j < h; j++) for (i = 0; i < w; i++)
          memcpy(pic + ((size_t)(y + j) * pw + x + i) * BPP, b->p + o + 12 + ((size_t)j * w + i) * BPP, BPP);
      }
      o += 12 + need;
    } else if (enc == rfbEncodingCopyRect) {
      unsigned sx_, sy_;
      if (b->n - o < 16) return 0;
      sx_ = vs_get16(b->p + o + 12); sy_ = vs_get16(b->p + o + 14);
      if (verbose) printf(" c=%u,%u,%u,%u<-%u,%u", x, y, w, h, sx_, sy_);
      if (pic) {
        if (x + w > (unsigned)pw || y + h > (unsigned)ph || sx_ + w > (unsigned)pw || sy_ + h > (unsigned)ph) { if (verbose) printf(" OUTSIDE"); }
        else if (w && h) {
          char *tmp = (char *)malloc((size_t)w * h * BPP);
          for (j = 0; j < h; j++) memcpy(tmp + (size_t)j * w * BPP, pic + ((size_t)(sy_ + j) * pw + sx_) * BPP, (size_t)w * BPP);
          for (j = 0; j < h; j++) memcpy(pic + ((size_t)(y + j) * pw + x) * BPP, tmp + (size_t)j * w * BPP, (size_t)w * BPP);
          free(tmp);
        }
      }
      o += 16;
    } else if (enc == rfbEncodingXCursor || enc == rfbEncodingRichCursor) {
      size_t rb = (w + 7) / 8, len = 12;
      if (w * h) len += (enc == rfbEncodingXCursor ? 6 + rb * h : (size_t)w * h * BPP) + rb * h;
      if (b->n - o < len) return 0;
      o += len;
    } else if (enc == rfbEncodingPointerPos) o += 12;
    else { if (verbose) printf(" ENC%d", enc); return 0; }
  }
  return o;
}

/* bytes peer k received since the last op; FramebufferUpdate messages (e.g. the empty update that follows
 * a pointer move, or the answer to a request that was still pending) are applied to the peer's picture
 * and left out, resize messages are printed, anything else is printed from there on */
static void print_new_bytes(int k) {
  vs_buf *b = &bufs[k]; size_t i;
  while (b->rd < b->n) {
    unsigned t = b->p[b->rd];
    if (t == 0) {
      size_t o = walk_fbu(k, b->rd, NULL, 0, 0, 0);
      if (!o) break;
      b->rd = o;
    } else if ((t == rfbResizeFrameBuffer && b->n - b->rd >= sz_rfbResizeFrameBufferMsg) ||
               (t == rfbPalmVNCReSizeFrameBuffer && b->n - b->rd >= sz_rfbPalmVNCReSizeFrameBufferMsg)) {
      size_t len = t == rfbResizeFrameBuffer ? sz_rfbResizeFrameBufferMsg : sz_rfbPalmVNCReSizeFrameBufferMsg;
      for (i = 0; i < len; i++) printf("%02x", b->p[b->rd + i]);
      b->rd += len;
    } else break;
  }
  for (i = b->rd; i < b->n; i++) printf("%02x", b->p[i]);
  b->rd = b->n;
}

int main(void) {
  char op[64]; int a[16];
  line = (char *)malloc(LINESZ);
  vs_quiet();
  memset(peers, -1, sizeof peers);
  signal(SIGPIPE, SIG_IGN);
  while (fgets(line, LINESZ, stdin)) {
    int n = sscanf(line, "%63s %d %d %d %d %d %d %d %d %d %d %d", op, &a[0], &a[1], &a[2], &a[3], &a[4], &a[5], &a[6], &a[7], &a[8], &a[9], &a[10]);
    char *rest = line + strlen(op); size_t L = strlen(line);
    if (n < 1) continue;
    if (L && line[L - 1] == '\n') line[L - 1] = 0;
    while (*rest == ' ') rest++;
    if (!strcmp(op, "case")) { drop_all(); printf("%s\n", line); }
    else if (!strcmp(op, "screen")) {
      drop_all();
      W = a[0]; H = a[1]; BPP = a[2];
      scr = vs_screen(W, H, BPP);
      scr->serverFormat.redMax = a[3]; scr->serverFormat.greenMax = a[4]; scr->serverFormat.blueMax = a[5];
      scr->serverFormat.redShift = a[6]; scr->serverFormat.greenShift = a[7]; scr->serverFormat.blueShift = a[8];
      scr->serverFormat.trueColour = a[9] ? TRUE : FALSE;
      scr->cursor = NULL;
      scr->ptrAddEvent = ptr_hook;
      printf("screen ok\n");
    }
    else if (!strcmp(op, "fb")) {
      char *p = rest; int x, y;
      for (y = 0; y < H; y++) for (x = 0; x < W; x++) setpix(scr->frameBuffer, x, y, (uint32_t)strtoul(p, &p, 16));
      printf("fb ok\n");
    }
    else if (!strcmp(op, "curs")) {
      /* curs w h xhot yhot: an opaque X cursor (all bits set), so that clients without cursor-shape
       * support have it painted into the framebuffer (and into the scaled copies) around their updates */
      int w = a[0], h = a[1]; char *bits = (char *)malloc((size_t)w * h + 1); rfbCursorPtr c;
      memset(bits, 'x', (size_t)w * h); bits[w * h] = 0;
      c = rfbMakeXCursor(w, h, bits, bits); free(bits);
      c->xhot = a[2]; c->yhot = a[3];
      c->foreRed = 0xffff; c->foreGreen = 0x8000; c->foreBlue = 0x4000;
      rfbSetCursor(scr, c);
      pump();
      printf("curs ok\n");
    }
    else if (!strcmp(op, "client")) {
      int k = ncl, rc; int32_t encs[4]; int ne = 1;
      ncl++;
      rc = fast_connect(k);
      if (rc != 0) { printf("client-failed %d\n", rc); return 3; }
      cls[k]->clientGoneHook = gone_hook;
      encs[0] = rfbEncodingRaw;
      if (strstr(rest, "zlib")) encs[0] = rfbEncodingZlib;
      if (strstr(rest, "ultra")) encs[0] = rfbEncodingUltra;
      if (strstr(rest, "rich")) encs[ne++] = rfbEncodingRichCursor;
      else if (strstr(rest, " x")) encs[ne++] = rfbEncodingXCursor;
      if (strstr(rest, "copyrect")) encs[ne++] = rfbEncodingCopyRect;
      vs_send_set_encodings(peers[k], ne, encs);
      pump();
      bufs[k].rd = bufs[k].n;
      printf("client "); state(); putchar('\n');
    }
    else if (!strcmp(op, "scale")) {
      int k = a[0]; unsigned char m[4];
      printf("scale msg=");
      if (k < ncl && !gone[k]) {
        m[0] = a[2] ? rfbPalmVNCSetScaleFactor : rfbSetScale; m[1] = (unsigned char)a[1]; m[2] = m[3] = 0;
        vs_write(peers[k], m, 4);
        pump();
        if (!gone[k]) print_new_bytes(k);
      }
      putchar(' '); state(); putchar('\n');
    }
    else if (!strcmp(op, "fill")) {
      int x, y; uint32_t v = 0;
      sscanf(line, "%*s %*d %*d %*d %*d %x", &v);
      for (y = a[1]; y < a[3]; y++) for (x = a[0]; x < a[2]; x++) setpix(scr->frameBuffer, x, y, v);
      rfbMarkRectAsModified(scr, a[0], a[1], a[2], a[3]);
      printf("fill "); state(); putchar('\n');
    }
    else if (!strcmp(op, "copy")) {
      /* copy x1 y1 x2 y2 dx dy: rfbDoCopyRect - the library moves the pixels inside the framebuffer and
       * schedules a CopyRect for the clients that take it */
      rfbDoCopyRect(scr, a[0], a[1], a[2], a[3], a[4], a[5]);
      pump();
      printf("copy "); state(); putchar('\n');
    }
    else if (!strcmp(op, "gone")) {
      int k = a[0];
      if (k < ncl && !gone[k]) { close(peers[k]); peers[k] = -1; pump(); }
      printf("gone "); state(); putchar('\n');
    }
    else if (!strcmp(op, "deferptr")) {
      /* deferptr ms: screen->deferPtrUpdateTime (-deferptrupdate): pure motions are remembered and delivered
       * later by rfbUpdateClient.  Use values far above the duration of a pump; `flush` lets the time pass. */
      scr->deferPtrUpdateTime = a[0];
      printf("deferptr ok\n");
    }
    else if (!strcmp(op, "ptr") || !strcmp(op, "flush")) {
      /* ptr k x y [buttons]: PointerEvent in the client's (scaled) coordinates;
       * flush k: the deferral time of client k passes (its start stamp is moved back), rfbUpdateClient runs */
      int k = a[0];
      have_ptr = 0;
      if (k < ncl && !gone[k]) {
        if (op[0] == 'p') {
          unsigned char m[6]; m[0] = 5; m[1] = (unsigned char)(n >= 5 ? a[3] : 0); vs_put16(m + 2, a[1]); vs_put16(m + 4, a[2]);
          vs_write(peers[k], m, 6); pump();
        } else {
          pump();
          /* only while a position is remembered: a stale stamp would make the next motion appear at once */
          if (cls[k]->lastPtrX >= 0 && cls[k]->startPtrDeferring.tv_usec != 0) cls[k]->startPtrDeferring.tv_sec -= scr->deferPtrUpdateTime / 1000 + 2;
          pump();
        }
      }
      if (!have_ptr) printf("%s cb=-\n", op);
      else {
        printf("%s cb=", op);
        if (last_px == (int)0x80000000) printf("indef"); else printf("%d", last_px);
        putchar(',');
        if (last_py == (int)0x80000000) printf("indef"); else printf("%d", last_py);
        printf(" b=%d", last_pb);
        if (have_ptr > 1) printf(" EVENTS=%d", have_ptr);
        putchar('\n');
      }
    }
    else if (!strcmp(op, "corr")) {
      rfbScreenInfo f, t; int x = a[4], y = a[5], w = a[6], h = a[7];
      memset(&f, 0, sizeof f); memset(&t, 0, sizeof t);
      f.width = a[0]; f.height = a[1]; t.width = a[2]; t.height = a[3];
      rfbScaledCorrection(&f, &t, &x, &y, &w, &h, "vdrv_scale");
      if (x == (int)0x80000000 || y == (int)0x80000000 || w == (int)0x80000000 || h == (int)0x80000000) printf("corr indef\n");
      else printf("corr %d %d %d %d\n", x, y, w, h);
    }
    else if (!strcmp(op, "sx")) {
      rfbScreenInfo f, t; int r;
      memset(&f, 0, sizeof f); memset(&t, 0, sizeof t);
      f.width = a[0]; t.width = a[1];
      r = ScaleX(&f, &t, a[2]);
      if (r == (int)0x80000000) printf("sx indef\n"); else printf("sx %d\n", r);
    }
    else if (!strcmp(op, "cnt")) {
      int w, h; char which[16];
      sscanf(line, "%*s %15s %d %d", which, &w, &h);
      if (w == 0) printf("cnt DIV0\n");   /* the expression of rfbSendFramebufferUpdate would trap */
      else if (!strcmp(which, "zlib")) printf("cnt %d\n", (((h - 1) / (ZLIB_MAX_SIZE(w) / w)) + 1));
      else printf("cnt %d\n", (((h - 1) / (ULTRA_MAX_SIZE(w) / w)) + 1));
    }
    else if (!strcmp(op, "upd")) {
      /* upd k incr x y w h: FramebufferUpdateRequest in the client's (scaled) coordinates, Raw decode */
      int k = a[0]; vs_buf *b = &bufs[k]; int sw_, sh_;
      printf("upd");
      if (k < ncl && !gone[k]) {
        sw_ = cls[k]->scaledScreen->width; sh_ = cls[k]->scaledScreen->height;
        if (!pics[k] || picw[k] != sw_ || pich[k] != sh_) { free(pics[k]); pics[k] = (char *)calloc((size_t)sw_ * sh_ + 1, BPP); picw[k] = sw_; pich[k] = sh_; }
        vs_send_fur(peers[k], a[1], a[2], a[3], a[4], a[5]);
        pump();
        while (b->n - b->rd >= 4 && b->p[b->rd] == 0) {
          size_t o = walk_fbu(k, b->rd, pics[k], sw_, sh_, 1);
          if (!o) { printf(" MALFORMED"); break; }
          b->rd = o;
        }
        if (b->n != b->rd) { printf(" EXTRA%zu", b->n - b->rd); b->rd = b->n; }
        printf(" size=%dx%d pic=", sw_, sh_); dumpfb(pics[k], sw_ * BPP, sw_, sh_);
        printf(" app="); dumpfb(scr->frameBuffer, W * BPP, W, H);
        putchar(' '); state();
      }
      putchar('\n');
    }
    else if (!strcmp(op, "zupd")) {
      /* full non-incremental request of a Zlib/Ultra client: report the announced rectangle count */
      int k = a[0]; vs_buf *b = &bufs[k];
      if (k < ncl && !gone[k]) {
        vs_send_fur(peers[k], 0, 0, 0, cls[k]->scaledScreen->width ? cls[k]->scaledScreen->width : 1, cls[k]->scaledScreen->height);
        fflush(stdout);
        pump();
        if (b->n - b->rd >= 4 && b->p[b->rd] == 0) printf("zupd count=%u\n", vs_get16(b->p + b->rd + 2));
        else printf("zupd none\n");
        b->rd = b->n;
      } else printf("zupd -\n");
    }
    else printf("?? %s\n", line);
    fflush(stdout);
  }
  drop_all();
  return 0;
}
