/* vdrv_threads.c - C13 randomised stress of the REAL background event loop
 * (rfbRunEventLoop(screen, -1, TRUE)): the library's listener / clientInput / clientOutput threads
 * serve clients connecting over loopback TCP while the application thread draws, marks, iterates,
 * rings the bell, sends cut text, replaces the framebuffer and finally shuts the server down.
 *
 * SAMPLED, not exhaustive: link-time wraps of pthread_mutex_lock/unlock, pthread_cond_wait/signal,
 * select, read, write inject seeded yields / short sleeps at every lock, wait and socket call of the
 * library; a watchdog (alarm) bounds every phase.  Every case runs in its own child process.
 *
 * Script (stdin): "case <n> ..." then one line
 *   stress SEED YIELDPCT NSTAY NABRUPT NSLOW NABANDON NCYCLES NEWFB
 * Output per case: one line "result ..." with the schedule-independent observables, one line
 * "pairs ..." with the observed (held -> acquired) mutex class pairs, "#..." lines with details.
 */
#include <rfb/rfb.h>
#include <rfb/rfbregion.h>
#include <pthread.h>
#include <signal.h>
#include <setjmp.h>
#include <sys/socket.h>
#include <sys/wait.h>
#include <sys/time.h>
#include <netinet/in.h>
#include <netinet/tcp.h>
#include <arpa/inet.h>
#include <unistd.h>
#include <fcntl.h>
#include <errno.h>
#include <poll.h>
#include <stdio.h>
#include <stdlib.h>
#include <string.h>
#include <stdint.h>

/* every time-out of this harness is multiplied by g_speed (>= 1): the factor is
 * measured by props/C13.py with the "calibrate" op on the machine and under the load the check runs on
 * (VDRV_SPEED) and doubled for confirmation re-runs (VDRV_SLOW) */
static double g_speed = 1.0;
static int sp(int ms) { double v = ms * g_speed; return v > 2000000000.0 ? 2000000000 : (int)v; }
/* pacing delays and polling intervals are NOT scaled (a healthy run stays short on a slow machine); what is
 * scaled is every bound after which the harness gives up: sp(N) iterations / milliseconds / seconds.
 * The windows of the forced schedules grow with the factor, capped at 4x. */
static useconds_t fsl(int us) { double f = g_speed > 4.0 ? 4.0 : g_speed; return (useconds_t)(us * f); }

#define W 32
#define H 24
#define MAXCL 256

int __real_pthread_mutex_lock(pthread_mutex_t *);
int __real_pthread_mutex_unlock(pthread_mutex_t *);
int __real_pthread_cond_wait(pthread_cond_t *, pthread_mutex_t *);
int __real_pthread_cond_signal(pthread_cond_t *);
int __real_pthread_create(pthread_t *, const pthread_attr_t *, void *(*)(void *), void *);
int __real_pthread_join(pthread_t, void **);
int __real_pthread_detach(pthread_t);
int __real_pthread_mutex_init(pthread_mutex_t *, const pthread_mutexattr_t *);
int __real_pthread_mutex_destroy(pthread_mutex_t *);
int __real_select(int, fd_set *, fd_set *, fd_set *, struct timeval *);
ssize_t __real_read(int, void *, size_t);
ssize_t __real_write(int, const void *, size_t);

static rfbScreenInfoPtr S;
static unsigned g_seed;
static int g_yield_pct;
static volatile int g_new, g_gone, g_created, g_joined, g_dupgone, g_detached;
static const char *volatile g_phase = "init";
static __thread int t_lib;            /* this thread is a library thread or inside a library call */
static __thread unsigned t_rng;
static __thread int t_role;           /* 0 application, 1 listener, 2 clientInput, 3 clientOutput */
static volatile int g_force;          /* 1 = lost wake-up schedule, 2 = iterator use-after-free schedule, 3 = cursor brackets, 4 = shutdown join,
                                         5 = peer disconnects inside rfbNewFramebuffer, 6 = connection accepted inside rfbNewFramebuffer */
static volatile int g_ended;          /* library threads whose thread function has returned */
static __thread const char *t_call;   /* the API call the application thread is in (LIBCALL) */
static __thread rfbClientPtr t_dying; /* this thread ran clientGoneHook for that record and goes on to free it */

/* ---- mutex classes: S(end) U(pdate) O(utput) R(efcount) of a client, C(ursor), G = rfbClientListMutex,
 * E = extMutex, X = a mutex the harness cannot name (reported: the model's table must account for every mutex).
 * A client is identified by its accept order (slot); rfbNewClient links at the HEAD of the client list, so
 * list position order = reverse slot order. */
typedef struct { rfbClientPtr cl; int live; int gone; } slot_t;
static slot_t slots[MAXCL];
static int nslots;
static pthread_mutex_t reg_mx = PTHREAD_MUTEX_INITIALIZER;
static pthread_mutex_t *g_list_mx, *g_ext_mx;   /* learned at start-up (both are static in the library) */
static volatile int g_learn;                     /* 1: the next mutex locked is rfbClientListMutex, 2: extMutex */
/* every mutex the library has initialised and not destroyed (pthread_mutex_init/destroy wraps): finds the record of a
 * connection that is already linked into the client list but not yet announced by newClientHook */
#define MAXMX 8192
static pthread_mutex_t *mx_reg[MAXMX];
static int n_mx;
static int reg_has(const void *m) { int i; for (i = 0; i < n_mx; i++) if ((const void *)mx_reg[i] == m) return 1; return 0; }
static void reg_add(pthread_mutex_t *m) { if (!reg_has(m) && n_mx < MAXMX) mx_reg[n_mx++] = m; }
static void reg_del(pthread_mutex_t *m) { int i; for (i = 0; i < n_mx; i++) if (mx_reg[i] == m) { mx_reg[i] = mx_reg[--n_mx]; return; } }

static int in_rec(rfbClientPtr cl, pthread_mutex_t *m) {
  if (m == &cl->sendMutex) return 'S';
  if (m == &cl->updateMutex) return 'U';
  if (m == &cl->outputMutex) return 'O';
  if (m == &cl->refCountMutex) return 'R';
  return 0;
}
static int classify(pthread_mutex_t *m, int *slot) {
  int k, c;
  *slot = -1;
  if (S && m == &S->cursorMutex) return 'C';
  if (m == g_list_mx) return 'G';
  if (m == g_ext_mx) return 'E';
  for (k = nslots - 1; k >= 0; k--) if (slots[k].live && (c = in_rec(slots[k].cl, m))) { *slot = k; return c; }
  /* the thread that ran clientGoneHook goes on to lock/unlock/destroy the record's mutexes before it frees it */
  if (t_dying) for (k = nslots - 1; k >= 0; k--) if (slots[k].cl == t_dying && (c = in_rec(t_dying, m))) { *slot = k; return c; }
  /* a record under construction: linked by rfbNewClient, newClientHook not called yet */
  { static const size_t off[4] = { offsetof(rfbClientRec, sendMutex), offsetof(rfbClientRec, updateMutex),
                                   offsetof(rfbClientRec, outputMutex), offsetof(rfbClientRec, refCountMutex) };
    static const char nm[4] = { 'S', 'U', 'O', 'R' };
    for (k = 0; k < 4; k++) {
      const char *base = (const char *)m - off[k];
      if (reg_has(base + off[0]) && reg_has(base + off[2]) && reg_has(base + off[3])) { *slot = nslots; return nm[k]; }
    }
  }
  return 'X';
}

/* for a misuse note only: name the mutex even when its record is being torn down by another thread */
static int classify_any(pthread_mutex_t *m, int *slot) {
  int c = classify(m, slot), k, d;
  if (c != 'X') return c;
  for (k = nslots - 1; k >= 0; k--) if ((d = in_rec(slots[k].cl, m))) { *slot = k; return d; }
  return 'X';
}
#define MAXHELD 320
static __thread pthread_mutex_t *t_held[MAXHELD];
static __thread int t_nheld;
/* observed pairs: [held class][acq class][relation: 0 '/', 1 '=', 2 '<' held client earlier in the list, 3 '>'] */
static volatile unsigned char pair_seen[128][128][4];
static const char rel_ch[4] = { '/', '=', '<', '>' };
static int rel_of(int sh, int sa) { return sh == sa ? 1 : (sh < 0 || sa < 0) ? 0 : sh > sa ? 2 : 3; }
/* mutex misuse seen by the wrap layer itself */
static volatile int g_bad_unlock, g_held_at_return;
static char g_misuse[400];
static void misuse_note(const char *what, int cls, int slot) {
  size_t l = strlen(g_misuse);
  if (l + 80 < sizeof g_misuse)
    snprintf(g_misuse + l, sizeof g_misuse - l, "%s%s:%c%d:in=%s", l ? "," : "", what, cls, slot,
             t_call ? t_call : t_role == 1 ? "listener" : t_role == 2 ? "clientInput" : t_role == 3 ? "clientOutput" : "?");
}
static void misuse_note_m(const char *what, pthread_mutex_t *m) { int c, k; c = classify_any(m, &k); misuse_note(what, c, k); }

static unsigned rnd(void) {
  if (!t_rng) t_rng = g_seed * 2654435761u ^ (unsigned)(uintptr_t)pthread_self() ^ 0x9e3779b9u;
  t_rng ^= t_rng << 13; t_rng ^= t_rng >> 17; t_rng ^= t_rng << 5;
  return t_rng;
}
static void perturb(void) {
  unsigned r;
  if (!g_yield_pct) return;
  r = rnd() % 100;
  if ((int)r < g_yield_pct) {
    if (rnd() % 4 == 0) usleep(rnd() % 300); else sched_yield();
  }
}

static volatile int g_connect_now;
static volatile int g_idle_close;     /* the idle client closes its socket now */
int __wrap_pthread_mutex_init(pthread_mutex_t *m, const pthread_mutexattr_t *a) {
  if (t_lib) { __real_pthread_mutex_lock(&reg_mx); reg_add(m); __real_pthread_mutex_unlock(&reg_mx); }
  return __real_pthread_mutex_init(m, a);
}
int __wrap_pthread_mutex_destroy(pthread_mutex_t *m) {
  if (t_lib) { __real_pthread_mutex_lock(&reg_mx); reg_del(m); __real_pthread_mutex_unlock(&reg_mx); }
  return __real_pthread_mutex_destroy(m);
}
int __wrap_pthread_mutex_lock(pthread_mutex_t *m) {
  int r;
  if (g_learn && t_lib && m != &reg_mx) { if (g_learn == 1) g_list_mx = m; else g_ext_mx = m; g_learn = 0; }
  if (t_lib && m != &reg_mx) {
    int ca, sa, i;
    perturb();
    __real_pthread_mutex_lock(&reg_mx);
    ca = classify(m, &sa);
    for (i = 0; i < t_nheld; i++) {
      int ch, sh; ch = classify(t_held[i], &sh);
      pair_seen[ch][ca][rel_of(sh, sa)] = 1;
    }
    __real_pthread_mutex_unlock(&reg_mx);
    /* forced schedules (replay of the model's refutation witnesses) */
    if (g_force == 1 && t_role == 3 && ca == 'U') usleep(fsl(150000));   /* clientOutput between the state test and LOCK(updateMutex) */
    if (g_force == 2 && t_role == 0 && ca == 'R') usleep(fsl(200000));   /* iterator between reading the pointer and rfbIncrClientRef */
    /* rfbNewFramebuffer between its locking pass and its unlocking pass (it takes cursorMutex there) */
    if (g_force == 5 && t_role == 0 && ca == 'C') { g_idle_close = 1; usleep(fsl(400000)); }
    if (g_force == 6 && t_role == 0 && ca == 'C') { g_connect_now = 1; usleep(fsl(400000)); }
  }
  r = __real_pthread_mutex_lock(m);
  if (t_lib && m != &reg_mx && t_nheld < MAXHELD) t_held[t_nheld++] = m;
  return r;
}
int __wrap_pthread_mutex_unlock(pthread_mutex_t *m) {
  int i;
  if (t_lib && m != &reg_mx) {
    for (i = t_nheld - 1; i >= 0; i--) if (t_held[i] == m) { t_held[i] = t_held[--t_nheld]; break; }
    if (i < 0) {                               /* UNLOCK of a mutex this thread does not hold */
      __real_pthread_mutex_lock(&reg_mx);
      g_bad_unlock++; misuse_note_m("unlock-not-held", m);
      __real_pthread_mutex_unlock(&reg_mx);
    }
  }
  { int cu = 0, su;
    if (g_force == 1 && t_lib && t_role == 0 && m != &reg_mx) { __real_pthread_mutex_lock(&reg_mx); cu = classify(m, &su); __real_pthread_mutex_unlock(&reg_mx); }
    i = __real_pthread_mutex_unlock(m);
    if (cu == 'U') usleep(fsl(50000));       /* rfbCloseClient between UNLOCK(updateMutex) and state = RFB_SHUTDOWN */
  }
  if (g_force == 3 && t_lib && t_role == 3 && S && m == &S->cursorMutex) usleep(fsl(120000));   /* between rfbShowCursor and rfbHideCursor */
  if (t_lib && m != &reg_mx) perturb();
  return i;
}
int __wrap_pthread_cond_wait(pthread_cond_t *c, pthread_mutex_t *m) {
  int i, r, had = 0;
  if (t_lib) { perturb(); for (i = t_nheld - 1; i >= 0; i--) if (t_held[i] == m) { t_held[i] = t_held[--t_nheld]; had = 1; break; } }
  r = __real_pthread_cond_wait(c, m);
  if (t_lib && had && t_nheld < MAXHELD) t_held[t_nheld++] = m;
  return r;
}
int __wrap_pthread_cond_signal(pthread_cond_t *c) {
  if (t_lib) perturb();
  return __real_pthread_cond_signal(c);
}
int __wrap_select(int n, fd_set *r, fd_set *w, fd_set *e, struct timeval *tv) {
  if (t_lib) perturb();
  return __real_select(n, r, w, e, tv);
}
static volatile int g_in_handshake;    /* a clientInput thread has read a one-byte handshake message and is about to act on it */
ssize_t __wrap_read(int fd, void *b, size_t n) {
  ssize_t r;
  if (t_lib) perturb();
  r = __real_read(fd, b, n);
  /* clientInput between reading the security-type / ClientInit byte and storing the next handshake state */
  if (g_force == 8 && t_lib && t_role == 2 && n == 1 && r == 1 && !g_in_handshake) { g_in_handshake = 1; usleep(fsl(300000)); }
  return r;
}
static volatile int g_write_blocked;   /* a clientOutput thread found its socket full */
ssize_t __wrap_write(int fd, const void *b, size_t n) {
  ssize_t r;
  if (t_lib) perturb();
  r = __real_write(fd, b, n);
  if (t_lib && t_role == 3 && (r < (ssize_t)n)) g_write_blocked++;
  /* rfbShutdownServer between rfbCloseClient's notification and its read of currentCl->client_thread */
  if (g_force == 4 && t_lib && t_role == 0 && n == 1) usleep(fsl(200000));
  return r;
}

/* library threads: mark them, count them */
typedef struct { void *(*fn)(void *); void *arg; int role; } tramp_t;
static void *tramp(void *p) {
  tramp_t t = *(tramp_t *)p; free(p);
  t_lib = 1; t_role = t.role;
  { void *r = t.fn(t.arg); __sync_fetch_and_add(&g_ended, 1); return r; }
}
int __wrap_pthread_create(pthread_t *th, const pthread_attr_t *a, void *(*fn)(void *), void *arg) {
  if (t_lib) {
    tramp_t *t = (tramp_t *)malloc(sizeof *t);
    t->fn = fn; t->arg = arg; t->role = t_role + 1;
    __sync_fetch_and_add(&g_created, 1);
    return __real_pthread_create(th, a, tramp, t);
  }
  return __real_pthread_create(th, a, fn, arg);
}
int __wrap_pthread_detach(pthread_t th) {
  int r = __real_pthread_detach(th);
  if (t_lib && r == 0) __sync_fetch_and_add(&g_detached, 1);
  return r;
}
int __wrap_pthread_join(pthread_t th, void **ret) {
  int r = __real_pthread_join(th, ret);
  if (t_lib && r == 0) __sync_fetch_and_add(&g_joined, 1);
  if (t_lib && r != 0) {                      /* a join the library asked for and did not get: detached / never started / already joined thread */
    __real_pthread_mutex_lock(&reg_mx); g_bad_unlock++; misuse_note("join-failed", 'T', r); __real_pthread_mutex_unlock(&reg_mx);
    if (getenv("VDRV_TRACE")) fprintf(stderr, "join-failed th=%lx rc=%d new=%d created=%d listener=%lx\n", (unsigned long)th, r, g_new, g_created, S ? (unsigned long)S->listener_thread : 0ul);
  }
  return r;
}

/* ---- hooks */
static void gone_hook(rfbClientPtr cl) {
  int k;
  __real_pthread_mutex_lock(&reg_mx);
  for (k = 0; k < nslots; k++) if (slots[k].live && slots[k].cl == cl) { slots[k].live = 0; slots[k].gone++; break; }
  if (k == nslots) g_dupgone++;
  t_dying = cl;
  __real_pthread_mutex_unlock(&reg_mx);
  __sync_fetch_and_add(&g_gone, 1);
}
static enum rfbNewClientAction new_hook(rfbClientPtr cl) {
  __real_pthread_mutex_lock(&reg_mx);
  if (nslots < MAXCL) { slots[nslots].cl = cl; slots[nslots].live = 1; slots[nslots].gone = 0; nslots++; }
  __real_pthread_mutex_unlock(&reg_mx);
  cl->clientGoneHook = gone_hook;
  __sync_fetch_and_add(&g_new, 1);
  return RFB_CLIENT_ACCEPT;
}

/* ---- watchdog */
static void on_alarm(int sig) {
  char b[160]; int n = snprintf(b, sizeof b, "\n#hang phase=%s new=%d gone=%d created=%d joined=%d\n", g_phase, g_new, g_gone, g_created, g_joined);
  __real_write(1, b, n);
  _exit(3);
}
static void phase(const char *p, int secs) { g_phase = p; if (secs < 10) secs = 10; alarm((unsigned)sp(secs) + 1); }

/* ---- a small RFB client (harness threads; never perturbed) */
typedef struct { int kind; int port; int id; int ok; int converged; int updates; int why; uint32_t fb[W * H]; volatile int *stop; } cli_t;
enum { K_STAY, K_ABRUPT, K_SLOW, K_ABANDON, K_CYCLE };

static int rd_full(int fd, void *buf, size_t n, int ms) {
  size_t off = 0;
  if (ms >= 2000) { if (ms < 10000) ms = 10000; ms = sp(ms); }   /* a give-up time-out (not a polling interval): never below 10 s, scaled */
  while (off < n) {
    struct pollfd pf = {fd, POLLIN, 0};
    int r = poll(&pf, 1, ms);
    ssize_t k;
    if (r <= 0) { if (getenv("VDRV_TRACE")) fprintf(stderr, "rd_full poll=%d errno=%d off=%zu n=%zu\n", r, errno, off, n); return -1; }
    k = __real_read(fd, (char *)buf + off, n - off);
    if (k <= 0) { if (getenv("VDRV_TRACE")) fprintf(stderr, "rd_full read=%zd errno=%d off=%zu n=%zu\n", k, errno, off, n); return -1; }
    off += (size_t)k;
  }
  return 0;
}
static int wr_full(int fd, const void *buf, size_t n) {
  size_t off = 0;
  while (off < n) {
    ssize_t k = send(fd, (const char *)buf + off, n - off, MSG_NOSIGNAL);
    if (k <= 0) return -1;
    off += (size_t)k;
  }
  return 0;
}
static int cl_connect(int port) {
  int fd = socket(AF_INET, SOCK_STREAM, 0), one = 1;
  struct sockaddr_in a; memset(&a, 0, sizeof a);
  a.sin_family = AF_INET; a.sin_port = htons(port); a.sin_addr.s_addr = htonl(INADDR_LOOPBACK);
  if (connect(fd, (struct sockaddr *)&a, sizeof a) < 0) { close(fd); return -1; }
  setsockopt(fd, IPPROTO_TCP, TCP_NODELAY, &one, sizeof one);
  return fd;
}
static int g_hs_shared = 1;
static int cl_handshake(int fd) {
  unsigned char b[64]; uint32_t nl;
  if (rd_full(fd, b, 12, 5000)) return -1;
  if (wr_full(fd, "RFB 003.008\n", 12)) return -2;
  if (rd_full(fd, b, 2, 5000)) return -3;        /* one type: None */
  b[0] = 1; if (wr_full(fd, b, 1)) return -4;
  if (rd_full(fd, b, 4, 5000)) return -5;
  b[0] = (unsigned char)g_hs_shared; if (wr_full(fd, b, 1)) return -6;    /* shared flag */
  if (rd_full(fd, b, 24, 5000)) return -7;
  nl = ((uint32_t)b[20] << 24) | (b[21] << 16) | (b[22] << 8) | b[23];
  if (nl > 40 || rd_full(fd, b, nl, 5000)) return -1;
  { unsigned char se[8] = {2, 0, 0, 1, 0, 0, 0, 0}; if (wr_full(fd, se, 8)) return -1; }   /* Raw */
  return 0;
}
static int cl_fur(int fd, int incr) {
  unsigned char m[10] = {3, (unsigned char)incr, 0, 0, 0, 0, 0, W, 0, H};
  return wr_full(fd, m, 10);
}
/* read one server message; updates c->fb; returns message type or -1 */
static int cl_read_msg(int fd, cli_t *c, int ms) {
  unsigned char h[12];
  if (rd_full(fd, h, 1, ms)) return -1;
  if (h[0] == 0) {
    int n, i;
    if (rd_full(fd, h + 1, 3, 5000)) return -1;
    n = (h[2] << 8) | h[3];
    for (i = 0; i < n; i++) {
      int x, y, w, hh, yy; uint32_t enc;
      if (rd_full(fd, h, 12, 5000)) return -1;
      x = (h[0] << 8) | h[1]; y = (h[2] << 8) | h[3]; w = (h[4] << 8) | h[5]; hh = (h[6] << 8) | h[7];
      enc = ((uint32_t)h[8] << 24) | (h[9] << 16) | (h[10] << 8) | h[11];
      if (enc != 0 || x + w > W || y + hh > H) { c->why = 100 + (int)(enc & 0xff); return -2; }
      for (yy = 0; yy < hh; yy++) if (rd_full(fd, &c->fb[(y + yy) * W + x], (size_t)w * 4, 5000)) return -1;
    }
    c->updates++;
    return 0;
  }
  if (h[0] == 2) return 2;
  if (h[0] == 3) { uint32_t l; unsigned char t[64]; if (rd_full(fd, h + 1, 7, 5000)) return -1;
                   l = ((uint32_t)h[4] << 24) | (h[5] << 16) | (h[6] << 8) | h[7]; if (l > 64 || rd_full(fd, t, l, 5000)) return -1; return 3; }
  c->why = 1000 + h[0];
  return -2;
}

static uint32_t final_pixel(int i) { return 0x00abcdefu ^ ((uint32_t)i * 2654435761u & 0x00ffffffu); }
static volatile int g_final_drawn;

static void *client_main(void *p) {
  cli_t *c = (cli_t *)p;
  int fd = cl_connect(c->port), i;
  if (fd < 0) { c->why = -1; return NULL; }
  if (c->kind == K_ABANDON) {
    unsigned char b[12];
    rd_full(fd, b, 12, 2000);
    if (c->id & 1) __real_write(fd, "RFB 003", 7);
    usleep(1000 * (c->id % 7));
    close(fd); c->ok = 1; return NULL;
  }
  if ((i = cl_handshake(fd))) { c->why = -10 + i; close(fd); return NULL; }
  c->ok = 1;
  if (c->kind == K_ABRUPT) {
    cl_fur(fd, 0);
    usleep(200 * (c->id % 5));
    close(fd);                                   /* in the middle of the update */
    return NULL;
  }
  if (c->kind == K_CYCLE) {
    cl_fur(fd, 0);
    cl_read_msg(fd, c, 3000);
    close(fd);
    return NULL;
  }
  cl_fur(fd, 0);
  while (!*c->stop) {
    int r = cl_read_msg(fd, c, 200);
    if (r == -2) { c->ok = 0; break; }
    if (r == 0) { if (c->kind == K_SLOW) usleep(3000); cl_fur(fd, 1); }
    if (g_final_drawn) {
      for (i = 0; i < W * H; i++) if (c->fb[i] != final_pixel(i)) break;
      if (i == W * H) { c->converged = 1; }
    }
  }
  /* after the application's last change: keep asking until the picture is the final one */
  for (i = 0; i < sp(200) && !c->converged && c->ok; i++) {
    int j, r;
    cl_fur(fd, 1);
    r = cl_read_msg(fd, c, 100);
    if (r == -2) { c->ok = 0; break; }
    for (j = 0; j < W * H; j++) if (c->fb[j] != final_pixel(j)) break;
    if (j == W * H) c->converged = 1;
  }
  close(fd);
  return NULL;
}

/* an API call of the application thread; when it returns the thread must not hold any library mutex */
static void libcall_end(void) {
  if (t_nheld) {
    int i;
    __real_pthread_mutex_lock(&reg_mx);
    for (i = 0; i < t_nheld; i++) { g_held_at_return++; misuse_note_m("held-at-return", t_held[i]); }
    __real_pthread_mutex_unlock(&reg_mx);
    t_nheld = 0;
  }
}
#define LIBCALL(stmt) do { t_lib = 1; t_call = #stmt; stmt; libcall_end(); t_call = NULL; t_lib = 0; } while (0)
static void print_pairs(void) {
  int a, b, r; printf("pairs");
  for (a = 0; a < 128; a++) for (b = 0; b < 128; b++) for (r = 0; r < 4; r++) if (pair_seen[a][b][r]) printf(" %c%c%c", a, b, rel_ch[r]);
  printf("\n");
  if (g_misuse[0]) printf("#misuse %s\n", g_misuse);
}
static char *misuse_tok(void) {            /* one token for the result line */
  static char b[420]; char *q;
  snprintf(b, sizeof b, "%s", g_misuse[0] ? g_misuse : "-");
  for (q = b; *q; q++) if (*q == ' ' || *q == '=') *q = '_';
  return b;
}

/* listen on a private loopback port (other programs on this machine probe 59xx) */
static int start_server(void) {
  int i, sock = -1, port = 0;
  S->autoPort = FALSE; S->port = 0; S->ipv6port = 0; S->httpDir = NULL; S->httpPort = 0; S->http6Port = 0;
  S->listenInterface = htonl(INADDR_LOOPBACK);
  LIBCALL(rfbInitServer(S));
  { rfbClientIteratorPtr it;                 /* no client yet: the only mutex an iterator step takes is rfbClientListMutex */
    LIBCALL(it = rfbGetClientIterator(S));
    g_learn = 1; LIBCALL((void)rfbClientIteratorNext(it)); g_learn = 0;
    LIBCALL(rfbReleaseClientIterator(it));
    g_learn = 2; LIBCALL(((void)rfbGetExtensionIterator(), rfbReleaseExtensionIterator())); g_learn = 0; }
  for (i = 0; i < 200 && sock < 0; i++) {
    port = 21000 + (int)(((unsigned)getpid() * 37u + (unsigned)i * 101u) % 20000u);
    LIBCALL(sock = rfbListenOnTCPPort(port, htonl(INADDR_LOOPBACK)));
  }
  if (sock < 0) return -1;
  S->listenSock = sock; S->port = port;
  FD_SET(sock, &S->allFds); if (sock > S->maxFd) S->maxFd = sock;
  return port;
}

static void *idle_client(void *p);
static int run_stress(unsigned seed, int ypct, int nstay, int nabrupt, int nslow, int nabandon, int ncycles, int newfb) {
  int argc = 0, i, n = 0, port, conv = 0, stay_ok = 0, zombies, stuck, cycles_done;
  static cli_t cl[MAXCL]; pthread_t th[MAXCL]; volatile int stop = 0;
  uint32_t *fb, *fb2 = NULL;
  g_seed = seed; g_yield_pct = ypct;
  rfbLogEnable(getenv("VDRV_LOG") != NULL);
  S = rfbGetScreen(&argc, NULL, W, H, 8, 3, 4);
  fb = (uint32_t *)calloc(W * H, 4);
  S->frameBuffer = (char *)fb;
  S->deferUpdateTime = 1; S->newClientHook = new_hook; S->alwaysShared = TRUE;
  rfbSetCursor(S, NULL);
  phase("init", 20);
  port = start_server();
  if (port < 0) { printf("result error=nolisten\n"); return 1; }
  LIBCALL(rfbRunEventLoop(S, -1, TRUE));

  /* phase 1: connect/disconnect cycles, one after the other (thread reclamation) */
  phase("cycles", 50 + 11 * ncycles);
  for (i = 0; i < ncycles; i++) {
    cli_t c; memset(&c, 0, sizeof c); c.kind = K_CYCLE; c.port = port; c.id = i; c.stop = &stop;
    client_main(&c);
    { int w = 0; while (g_gone < g_new && w++ < sp(20000)) usleep(500); }
  }
  { int w = 0; while ((g_gone < g_new || g_new < ncycles) && w++ < sp(20000)) usleep(500); }
  /* listener still runs; no client is connected now.  A client whose teardown did not complete within
     the wait (its input thread blocked in THREAD_JOIN) still has its two threads alive. */
  /* the gone hook runs in the middle of the teardown: give the threads of the finished cycles the time to end (2 per client) */
  { int w = 0; while (g_ended < 2 * g_gone && w++ < sp(4000)) usleep(500); }
  stuck = g_new - g_gone; cycles_done = g_gone;
  zombies = g_created - 1 - g_joined - g_detached - 2 * stuck;   /* ended, neither joined nor detached */
  printf("#cycles n=%d new=%d gone=%d created=%d joined=%d detached=%d\n", ncycles, g_new, g_gone, g_created, g_joined, g_detached);

  /* phase 2: concurrent clients + application activity */
  phase("stress", 90);
  for (i = 0; i < nstay; i++) { cl[n].kind = K_STAY; n++; }
  for (i = 0; i < nslow; i++) { cl[n].kind = K_SLOW; n++; }
  for (i = 0; i < nabrupt; i++) { cl[n].kind = K_ABRUPT; n++; }
  for (i = 0; i < nabandon; i++) { cl[n].kind = K_ABANDON; n++; }
  /* the staying clients finish their handshake first: the library sends Bell / ServerCutText to every
     open client whatever its protocol state, which would corrupt a handshake in progress */
  for (i = 0; i < n; i++) { cl[i].port = port; cl[i].id = i; cl[i].stop = &stop;
    if (cl[i].kind == K_STAY || cl[i].kind == K_SLOW) __real_pthread_create(&th[i], NULL, client_main, &cl[i]); }
  { int w = 0, all; do { all = 1; for (i = 0; i < n; i++) if ((cl[i].kind == K_STAY || cl[i].kind == K_SLOW) && !cl[i].ok) all = 0; usleep(1000); } while (!all && w++ < sp(15000)); }
  for (i = 0; i < n; i++) if (!(cl[i].kind == K_STAY || cl[i].kind == K_SLOW)) __real_pthread_create(&th[i], NULL, client_main, &cl[i]);
  for (i = 0; i < 150; i++) {
    int j, x = (int)(rnd() % W), y = (int)(rnd() % H);
    for (j = 0; j < 40; j++) fb[(y * W + x + j) % (W * H)] = rnd();
    LIBCALL(rfbMarkRectAsModified(S, 0, 0, W, H));
    if (i % 7 == 0) LIBCALL(rfbSendBell(S));
    if (i % 11 == 0) LIBCALL(rfbSendServerCutText(S, "stress", 6));
    if (i % 5 == 0) {
      rfbClientIteratorPtr it; rfbClientPtr c; int cnt = 0;
      LIBCALL(it = rfbGetClientIterator(S));
      for (;;) { LIBCALL(c = rfbClientIteratorNext(it)); if (!c) break; cnt += c->sock >= 0; }
      LIBCALL(rfbReleaseClientIterator(it));
    }
    if (newfb && i == 75) {
      fb2 = (uint32_t *)calloc(W * H, 4);
      memcpy(fb2, fb, W * H * 4);
      LIBCALL(rfbNewFramebuffer(S, (char *)fb2, W, H, 8, 3, 4));
      { uint32_t *t = fb; fb = fb2; fb2 = t; }
    }
    usleep(300 + rnd() % 700);
  }
  for (i = 0; i < W * H; i++) fb[i] = final_pixel(i);
  LIBCALL(rfbMarkRectAsModified(S, 0, 0, W, H));
  g_final_drawn = 1;
  usleep(30000);
  stop = 1;
  phase("clients-finish", 40);
  for (i = 0; i < n; i++) __real_pthread_join(th[i], NULL);
  for (i = 0; i < n; i++) if (cl[i].kind == K_STAY || cl[i].kind == K_SLOW) { stay_ok += cl[i].ok; conv += cl[i].converged;
    printf("#stay id=%d ok=%d converged=%d updates=%d why=%d\n", i, cl[i].ok, cl[i].converged, cl[i].updates, cl[i].why); }

  /* phase 3: some clients still connected while the server is shut down */
  phase("shutdown", 25);
  {
    static cli_t late[3]; pthread_t lt[3]; volatile int never = 0; int k;
    /* two busy clients and one idle one (no request outstanding: its input thread sits in select, its
       output thread in WAIT - only rfbCloseClient's notifications can end them) */
    for (k = 0; k < 3; k++) { memset(&late[k], 0, sizeof late[k]); late[k].kind = K_STAY; late[k].port = port; late[k].id = 100 + k; late[k].stop = &never;
                              __real_pthread_create(&lt[k], NULL, k == 2 ? idle_client : client_main, &late[k]); }
    { int w = 0; while (!late[2].ok && w++ < sp(10000)) usleep(1000); }
    usleep(20000);
    LIBCALL(rfbShutdownServer(S, TRUE));
    never = 1;
    phase("late-clients", 25);
    for (k = 0; k < 3; k++) __real_pthread_join(lt[k], NULL);
  }
  phase("cleanup", 25);
  { int w = 0; while (g_gone < g_new && w++ < sp(2000)) usleep(500); }
  LIBCALL(rfbScreenCleanup(S));
  alarm(0);
  printf("result hang=0 new=%d gone=%d dupgone=%d cycles=%d stuck_after_cycles=%d zombies_after_cycles=%d stay=%d stay_ok=%d converged=%d created=%d joined=%d bad_unlock=%d held_at_return=%d misuse=%s\n",
         g_new, g_gone, g_dupgone, cycles_done, stuck, zombies, nstay + nslow, stay_ok, conv, g_created, g_joined, g_bad_unlock, g_held_at_return, misuse_tok());
  print_pairs();
  free(fb); free(fb2);
  return 0;
}

static void *idle_client(void *p) {
  cli_t *c = (cli_t *)p;
  int fd = cl_connect(c->port);
  if (fd < 0 || cl_handshake(fd)) return NULL;
  cl_fur(fd, 0);
  cl_read_msg(fd, c, 3000);
  c->ok = 1;                                  /* now idle: no further request, clientOutput sleeps in WAIT */
  while (!*c->stop) { if (g_idle_close) break; usleep(1000); }
  close(fd);
  return NULL;
}

static volatile int g_go;
static void *fur_client(void *p) {
  cli_t *c = (cli_t *)p;
  int fd = cl_connect(c->port), i;
  if (fd < 0 || cl_handshake(fd)) return NULL;
  cl_fur(fd, 0); cl_read_msg(fd, c, 3000);
  c->ok = 1;
  while (!g_go) usleep(500);
  cl_fur(fd, 0);                              /* both clients ask at the same moment */
  for (i = 0; i < 20 && !*c->stop; i++) cl_read_msg(fd, c, 100);
  close(fd);
  return NULL;
}

static volatile int g_usr1;
static void on_usr1(int sig) { (void)sig; g_usr1++; }
static int wait_gone(int target, int ms);
/* connects as soon as the wrap layer says rfbNewFramebuffer is between its two passes */
static void *late_connector(void *p) {
  cli_t *c = (cli_t *)p; int fd, w = 0;
  while (!g_connect_now && w++ < sp(10000)) usleep(200);
  fd = cl_connect(c->port);
  if (fd < 0 || cl_handshake(fd)) { c->ok = 1; return NULL; }
  cl_fur(fd, 0); cl_read_msg(fd, c, 3000);
  c->ok = 1;
  while (!*c->stop) usleep(1000);
  close(fd);
  return NULL;
}
static int run_forced(int which) {
  int argc = 0, port; static cli_t c; pthread_t th; volatile int stop = 0; uint32_t *fb;
  g_seed = 7; g_yield_pct = 0;
  rfbLogEnable(getenv("VDRV_LOG") != NULL);
  S = rfbGetScreen(&argc, NULL, W, H, 8, 3, 4);
  fb = (uint32_t *)calloc(W * H, 4); S->frameBuffer = (char *)fb;
  S->deferUpdateTime = 1; S->newClientHook = new_hook; S->alwaysShared = TRUE; rfbSetCursor(S, NULL);
  phase("init", 20);
  port = start_server();
  if (port < 0) { printf("result error=nolisten\n"); return 1; }
  if (which == 3) {
    static cli_t c2[2]; pthread_t t2[2]; int i, diff = 0;
    rfbSetCursor(S, rfbMakeXCursor(8, 8, (char *)"xxxxxxxxxxxxxxxxxxxxxxxxxxxxxxxxxxxxxxxxxxxxxxxxxxxxxxxxxxxxxxxx", (char *)"xxxxxxxxxxxxxxxxxxxxxxxxxxxxxxxxxxxxxxxxxxxxxxxxxxxxxxxxxxxxxxxx"));
    S->cursor->foreRed = S->cursor->foreGreen = S->cursor->foreBlue = 0xffff;
    S->cursorX = 12; S->cursorY = 10;
    for (i = 0; i < W * H; i++) fb[i] = 0x00202020u;
    LIBCALL(rfbRunEventLoop(S, -1, TRUE));
    for (i = 0; i < 2; i++) { memset(&c2[i], 0, sizeof c2[i]); c2[i].port = port; c2[i].stop = &stop; __real_pthread_create(&t2[i], NULL, fur_client, &c2[i]); }
    { int w = 0; while (!(c2[0].ok && c2[1].ok) && w++ < sp(10000)) usleep(1000); }
    usleep(50000);
    phase("cursor", 15);
    for (i = 0; i < W * H; i++) if (fb[i] != 0x00202020u) diff++;
    printf("#cursor before=%d\n", diff);
    g_force = 3; g_go = 1;
    usleep(fsl(1500000));
    g_force = 0; stop = 1;
    for (i = 0; i < 2; i++) __real_pthread_join(t2[i], NULL);
    usleep(100000);
    diff = 0;
    for (i = 0; i < W * H; i++) if (fb[i] != 0x00202020u) diff++;
    alarm(0);
    printf("result hang=0 forced=cursor new=%d burned_pixels=%d bad_unlock=%d held_at_return=%d misuse=%s\n", g_new, diff, g_bad_unlock, g_held_at_return, misuse_tok());
    return 0;
  }
  if (which == 6) {
    /* a connection is accepted while rfbNewFramebuffer is between its locking and its unlocking pass */
    uint32_t *fb2 = (uint32_t *)calloc(W * H, 4); pthread_t ht; static cli_t cc;
    LIBCALL(rfbRunEventLoop(S, -1, TRUE));
    memset(&cc, 0, sizeof cc); cc.port = port; cc.stop = &stop;
    __real_pthread_create(&ht, NULL, late_connector, &cc);
    phase("newfb", 15);
    g_force = 6;
    LIBCALL(rfbNewFramebuffer(S, (char *)fb2, W, H, 8, 3, 4));
    g_force = 0;
    { int w = 0; while (!cc.ok && w++ < sp(5000)) usleep(1000); }
    printf("presult mode=newfbaccept accepted_inside=%d bad_unlock=%d held_at_return=%d misuse=%s\n", g_new, g_bad_unlock, g_held_at_return, misuse_tok());
    fflush(stdout);
    stop = 1; __real_pthread_join(ht, NULL);
    phase("shutdown", 15);
    LIBCALL(rfbShutdownServer(S, TRUE));
    alarm(0);
    printf("result hang=0 forced=newfbaccept new=%d gone=%d bad_unlock=%d held_at_return=%d misuse=%s\n", g_new, g_gone, g_bad_unlock, g_held_at_return, misuse_tok());
    return 0;
  }
  if (which == 8) {
    /* rfbShutdownServer (rfbCloseClient) while the client's thread is inside a handshake step */
    pthread_t ht; static cli_t cc;
    LIBCALL(rfbRunEventLoop(S, -1, TRUE));
    memset(&cc, 0, sizeof cc); cc.port = port; cc.stop = &stop;
    g_force = 8; g_connect_now = 1;
    __real_pthread_create(&ht, NULL, late_connector, &cc);
    { int w = 0; while (!g_in_handshake && w++ < sp(10000)) usleep(500); }
    printf("presult mode=closeinhandshake in_handshake=%d\n", g_in_handshake);
    fflush(stdout);
    phase("shutdown", 12);
    LIBCALL(rfbShutdownServer(S, TRUE));
    g_force = 0; alarm(0);
    stop = 1; __real_pthread_join(ht, NULL);
    printf("result hang=0 forced=closeinhandshake new=%d gone=%d bad_unlock=%d held_at_return=%d misuse=%s\n", g_new, g_gone, g_bad_unlock, g_held_at_return, misuse_tok());
    return 0;
  }
  if (which == 7) {
    /* a signal handler of the application runs on a library thread: select() returns -1/EINTR there */
    int fd, served, torn, accepts, fd2; static cli_t cc; struct sigaction sa;
    memset(&sa, 0, sizeof sa); sa.sa_handler = on_usr1; sa.sa_flags = SA_RESTART; sigaction(SIGUSR1, &sa, NULL);
    LIBCALL(rfbRunEventLoop(S, -1, TRUE));
    phase("eintr-connect", 30);
    memset(&cc, 0, sizeof cc);
    fd = cl_connect(port);
    if (fd < 0 || cl_handshake(fd)) { printf("result error=connect\n"); return 1; }
    cl_fur(fd, 0);
    if (cl_read_msg(fd, &cc, 10000) != 0) { printf("result error=initial\n"); return 1; }
    usleep(50000);                               /* idle now: clientInput sits in select(), clientOutput in WAIT */
    phase("eintr-client", 40);
    pthread_kill(slots[0].cl->client_thread, SIGUSR1);
    usleep(100000);
    cl_fur(fd, 0);
    served = cl_read_msg(fd, &cc, 10000) == 0;
    close(fd);
    torn = wait_gone(1, 10000);
    printf("presult mode=eintr served_after_signal=%d torn_down_after_close=%d usr1=%d\n", served, torn, g_usr1);
    fflush(stdout);
    phase("eintr-listener", 40);
    pthread_kill(S->listener_thread, SIGUSR1);
    usleep(100000);
    fd2 = cl_connect(port);
    accepts = fd2 >= 0 && cl_handshake(fd2) == 0;
    printf("presult2 accepts_after_signal=%d usr1=%d\n", accepts, g_usr1);
    fflush(stdout);
    /* let that client finish its handshake and be served before the shutdown: closing a client whose thread is still
       inside the handshake is a different replay (force closeinhandshake) */
    if (accepts) { cl_fur(fd2, 0); cl_read_msg(fd2, &cc, 10000); }
    phase("shutdown", 15);
    LIBCALL(rfbShutdownServer(S, TRUE));
    alarm(0);
    if (fd2 >= 0) close(fd2);
    printf("result hang=0 forced=eintr new=%d gone=%d bad_unlock=%d held_at_return=%d misuse=%s\n", g_new, g_gone, g_bad_unlock, g_held_at_return, misuse_tok());
    return 0;
  }
  LIBCALL(rfbRunEventLoop(S, -1, TRUE));
  memset(&c, 0, sizeof c); c.port = port; c.stop = &stop;
  __real_pthread_create(&th, NULL, idle_client, &c);
  { int w = 0; while (!c.ok && w++ < sp(10000)) usleep(1000); }
  usleep(100000);
  if (which == 5) {
    /* the peer of the idle client disconnects while rfbNewFramebuffer is between its locking and its unlocking pass */
    uint32_t *fb2 = (uint32_t *)calloc(W * H, 4); int ended0;
    phase("newfb", 15);
    ended0 = g_ended;
    g_force = 5;
    LIBCALL(rfbNewFramebuffer(S, (char *)fb2, W, H, 8, 3, 4));
    g_force = 0;
    stop = 1; __real_pthread_join(th, NULL);
    { int w = 0; while (g_ended - ended0 < 2 && w++ < sp(3000)) usleep(1000); }   /* clientOutput and clientInput of that client */
    printf("presult mode=newfbgone client_threads_ended=%d gone=%d bad_unlock=%d held_at_return=%d misuse=%s\n", g_ended - ended0, g_gone, g_bad_unlock, g_held_at_return, misuse_tok());
    fflush(stdout);
    phase("shutdown", 15);
    LIBCALL(rfbShutdownServer(S, TRUE));
    alarm(0);
    printf("result hang=0 forced=newfbgone new=%d gone=%d bad_unlock=%d held_at_return=%d misuse=%s\n", g_new, g_gone, g_bad_unlock, g_held_at_return, misuse_tok());
  } else if (which == 4) {
    phase("shutdown", 10);
    g_force = 4;
    LIBCALL(rfbShutdownServer(S, TRUE));
    g_force = 0; alarm(0);
    stop = 1; __real_pthread_join(th, NULL);
    printf("result hang=0 forced=shutdownjoin new=%d gone=%d bad_unlock=%d held_at_return=%d misuse=%s\n", g_new, g_gone, g_bad_unlock, g_held_at_return, misuse_tok());
  } else if (which == 1) {
    phase("shutdown", 8);
    g_force = 1;
    LIBCALL(rfbShutdownServer(S, TRUE));
    g_force = 0; alarm(0);
    stop = 1; __real_pthread_join(th, NULL);
    printf("result hang=0 forced=lostwakeup new=%d gone=%d bad_unlock=%d held_at_return=%d misuse=%s\n", g_new, g_gone, g_bad_unlock, g_held_at_return, misuse_tok());
  } else {
    rfbClientIteratorPtr it; rfbClientPtr cl;
    phase("iterate", 8);
    LIBCALL(it = rfbGetClientIterator(S));
    g_force = 2; g_idle_close = 1;            /* the peer disconnects while the iterator holds a bare pointer */
    LIBCALL(cl = rfbClientIteratorNext(it));
    g_force = 0;
    LIBCALL(rfbReleaseClientIterator(it));
    alarm(0);
    stop = 1; __real_pthread_join(th, NULL);
    printf("result hang=0 forced=iteruaf new=%d gone=%d got=%d\n", g_new, g_gone, cl != NULL);
  }
  return 0;
}

/* ================================================================== phases: final contents
 * Staying clients of three kinds (Raw only / CopyRect+Raw / CopyRect+Raw+RichCursor+PointerPos) and an idle
 * "mover".  Each phase: with NO request outstanding the application performs ONE last framebuffer
 * operation, then every staying client sends ONE incremental request and must receive an update and
 * show the application's framebuffer within a bounded wait.  The 16x16 corner where the cursor lives is
 * excluded from the comparison (soft cursor painted into what non-cursor-shape clients receive). */
#define PW 64
#define PH 48
#define CORNER 16
enum { PH_MARK, PH_COPYRECT, PH_COPYREGION, PH_CURMOVE, PH_CURREPLACE, PH_BELL, PH_CUTTEXT, PH_NEWFB, PH_N };
static const char *ph_name[PH_N] = {"mark", "copyrect", "copyregion", "cursormove", "cursorreplace", "bell", "cuttext", "newfb"};
typedef struct { int kind; int port; int fd; int ok; uint32_t fb[PW * PH]; int updates; int why; } pcli_t;

static int pc_read_msg(pcli_t *c, int ms) {
  unsigned char h[12]; int fd = c->fd;
  if (rd_full(fd, h, 1, ms)) return -1;
  if (h[0] == 0) {
    int n, i;
    if (rd_full(fd, h + 1, 3, 5000)) return -3;
    n = (h[2] << 8) | h[3];
    for (i = 0; i < n; i++) {
      int x, y, w, hh, yy; uint32_t enc;
      if (rd_full(fd, h, 12, 5000)) return -3;
      x = (h[0] << 8) | h[1]; y = (h[2] << 8) | h[3]; w = (h[4] << 8) | h[5]; hh = (h[6] << 8) | h[7];
      enc = ((uint32_t)h[8] << 24) | (h[9] << 16) | (h[10] << 8) | h[11];
      if (enc == 0) {
        if (x + w > PW || y + hh > PH) { c->why = 201; return -2; }
        for (yy = 0; yy < hh; yy++) if (rd_full(fd, &c->fb[(y + yy) * PW + x], (size_t)w * 4, 5000)) return -3;
      } else if (enc == 1) {
        unsigned char s4[4]; int sx, sy; static uint32_t tmp[PW * PH];
        if (rd_full(fd, s4, 4, 5000)) return -3;
        sx = (s4[0] << 8) | s4[1]; sy = (s4[2] << 8) | s4[3];
        if (x + w > PW || y + hh > PH || sx + w > PW || sy + hh > PH) { c->why = 202; return -2; }
        memcpy(tmp, c->fb, sizeof tmp);
        for (yy = 0; yy < hh; yy++) memcpy(&c->fb[(y + yy) * PW + x], &tmp[(sy + yy) * PW + sx], (size_t)w * 4);
      } else if (enc == 0xFFFFFF11u) {            /* RichCursor */
        static unsigned char junk[64 * 64 * 4 + 64 * 8]; size_t len = (size_t)w * hh * 4 + (size_t)((w + 7) / 8) * hh;
        if (len > sizeof junk || (len && rd_full(fd, junk, len, 5000))) return -3;
      } else if (enc == 0xFFFFFF18u) {            /* PointerPos: no payload */
      } else { c->why = 300 + (int)(enc & 0xff); return -2; }
    }
    c->updates++;
    return 0;
  }
  if (h[0] == 2) return 2;
  if (h[0] == 3) { uint32_t l; unsigned char tt[64]; if (rd_full(fd, h + 1, 7, 5000)) return -3;
                   l = ((uint32_t)h[4] << 24) | (h[5] << 16) | (h[6] << 8) | h[7]; if (l > 64 || rd_full(fd, tt, l, 5000)) return -3; return 3; }
  c->why = 1000 + h[0];
  return -2;
}
static int pc_fur(pcli_t *c, int incr) {
  unsigned char m[10] = {3, (unsigned char)incr, 0, 0, 0, 0, 0, PW, 0, PH};
  return wr_full(c->fd, m, 10);
}
static int pc_connect(pcli_t *c) {
  unsigned char se[4 + 4 * 4]; int n = 0; uint32_t encs[4];
  c->fd = cl_connect(c->port);
  if (c->fd < 0 || cl_handshake(c->fd)) return -1;      /* cl_handshake ends with SetEncodings {Raw} */
  if (c->kind >= 1) { encs[n++] = 1; }
  encs[n++] = 0;
  if (c->kind == 2) { encs[n++] = 0xFFFFFF11u; encs[n++] = 0xFFFFFF18u; }
  se[0] = 2; se[1] = 0; se[2] = 0; se[3] = (unsigned char)n;
  { int i; for (i = 0; i < n; i++) { se[4 + 4 * i] = encs[i] >> 24; se[5 + 4 * i] = encs[i] >> 16; se[6 + 4 * i] = encs[i] >> 8; se[7 + 4 * i] = encs[i]; } }
  if (wr_full(c->fd, se, 4 + 4 * n)) return -1;
  c->ok = 1;
  return 0;
}
static int pc_diff(pcli_t *c, const uint32_t *fb) {
  int x, y, d = 0;
  for (y = 0; y < PH; y++) for (x = 0; x < PW; x++) if (!(x < CORNER && y < CORNER) && c->fb[y * PW + x] != fb[y * PW + x]) d++;
  return d;
}
/* read until the picture is the application's (and at least min_updates updates came) or ms expired */
static int pc_settle(pcli_t *c, const uint32_t *fb, int min_updates, int ms) {
  int u0 = c->updates, waited = 0;
  for (;;) {
    int r;
    if (c->updates - u0 >= min_updates && pc_diff(c, fb) == 0) return 0;
    if (waited >= sp(ms)) return -1;
    r = pc_read_msg(c, 50);
    if (r == -2 || r == -3) return -2;
    if (r == -1) waited += 50;
  }
}

static int run_phases(unsigned seed, int ypct, int rounds) {
  int argc = 0, port, i, k, ph, order[PH_N], fails = 0, nph = 0; static pcli_t c[4];
  uint32_t *fb, *fb2 = NULL; char failtxt[400] = "";
  rfbCursorPtr cur;
  g_seed = seed; g_yield_pct = ypct;
  rfbLogEnable(getenv("VDRV_LOG") != NULL);
  S = rfbGetScreen(&argc, NULL, PW, PH, 8, 3, 4);
  fb = (uint32_t *)calloc(PW * PH, 4); S->frameBuffer = (char *)fb;
  for (i = 0; i < PW * PH; i++) fb[i] = 0x00300000u + (uint32_t)i * 3u;
  S->deferUpdateTime = 1; S->newClientHook = new_hook; S->alwaysShared = TRUE;
  cur = rfbMakeXCursor(4, 4, (char *)"xxxxxxxxxxxxxxxx", (char *)"xxxxxxxxxxxxxxxx");
  rfbSetCursor(S, cur); S->cursorX = 4; S->cursorY = 4;
  phase("init", 20);
  port = start_server();
  if (port < 0) { printf("result error=nolisten\n"); return 1; }
  LIBCALL(rfbRunEventLoop(S, -1, TRUE));
  phase("connect", 60);
  for (k = 0; k < 4; k++) {
    memset(&c[k], 0, sizeof c[k]); c[k].kind = k < 3 ? k : 0; c[k].port = port;
    if (pc_connect(&c[k])) { printf("result error=connect%d\n", k); return 1; }
    pc_fur(&c[k], 0);
    if (pc_settle(&c[k], fb, 1, 10000)) { printf("result error=initial%d why=%d\n", k, c[k].why); return 1; }
  }
  for (i = 0; i < PH_N; i++) order[i] = i;
  for (i = PH_N - 1; i > 0; i--) { int j = (int)(rnd() % (unsigned)(i + 1)), tmp = order[i]; order[i] = order[j]; order[j] = tmp; }
  for (ph = 0; ph < rounds * PH_N; ph++) {
    int op = order[ph % PH_N], j;
    unsigned r = rnd();
    phase(ph_name[op], 60);
    nph++;
    /* no request is outstanding now.  ONE last operation: */
    switch (op) {
    case PH_MARK:
      for (j = 0; j < 60; j++) fb[(20 + (int)(r % 20)) * PW + 20 + j % 40] = rnd();
      LIBCALL(rfbMarkRectAsModified(S, 16, 16, PW, PH));
      break;
    case PH_COPYRECT:
      LIBCALL(rfbDoCopyRect(S, 24, 20, 48, 40, 8, 4));
      break;
    case PH_COPYREGION: {
      sraRegionPtr rg = sraRgnCreateRect(40, 20, 56, 28), r2 = sraRgnCreateRect(40, 32, 56, 40);
      sraRgnOr(rg, r2);
      LIBCALL(rfbDoCopyRegion(S, rg, 20, 0));
      sraRgnDestroy(rg); sraRgnDestroy(r2);
      break; }
    case PH_CURMOVE:
      /* a position different from the current one (an unchanged position is a no-op in the library) */
      LIBCALL(rfbDefaultPtrAddEvent(0, 2 + (S->cursorX - 2 + 1 + (int)(r % 8)) % 9, 2 + (int)((r >> 8) % 9), slots[3].cl));
      break;
    case PH_CURREPLACE: {
      rfbCursorPtr nc = rfbMakeXCursor(4, 4, (char *)((r & 1) ? "x  x xx  xx x  x" : " xx x  xx  x xx "), (char *)"xxxxxxxxxxxxxxxx");
      nc->cleanup = TRUE;
      LIBCALL(rfbSetCursor(S, nc));
      break; }
    case PH_BELL:
      fb[30 * PW + 30] ^= 0x00ffffffu; LIBCALL(rfbMarkRectAsModified(S, 30, 30, 31, 31));
      LIBCALL(rfbSendBell(S));
      break;
    case PH_CUTTEXT:
      fb[31 * PW + 31] ^= 0x00ffffffu; LIBCALL(rfbMarkRectAsModified(S, 31, 31, 32, 32));
      LIBCALL(rfbSendServerCutText(S, (char *)"phase", 5));
      break;
    case PH_NEWFB:
      fb2 = (uint32_t *)malloc(PW * PH * 4);
      for (j = 0; j < PW * PH; j++) fb2[j] = fb[j] ^ 0x00010101u;
      LIBCALL(rfbNewFramebuffer(S, (char *)fb2, PW, PH, 8, 3, 4));
      free(fb); fb = fb2; fb2 = NULL;
      break;
    }
    usleep(2000 + r % 3000);
    /* every staying client now asks once, incrementally, and must be served */
    for (k = 0; k < 3; k++) pc_fur(&c[k], 1);
    for (k = 0; k < 3; k++) {
      int rr = pc_settle(&c[k], fb, 1, 10000);
      if (rr) {
        size_t l = strlen(failtxt);
        fails++;
        if (l + 40 < sizeof failtxt) snprintf(failtxt + l, sizeof failtxt - l, "%s%s:k%d:%s:d%d", l ? "," : "", ph_name[op], c[k].kind,
                                              rr == -1 ? "noupdate" : "badstream", pc_diff(&c[k], fb));
        if (rr == -2) goto out;
      }
    }
    /* the verdict is known after the first failing phase (all three clients of that phase are recorded): the remaining
       phases would each cost further 10 s waits per client */
    if (fails) goto out;
  }
out:
  /* the verdict of the phases does not depend on how the shutdown goes */
  printf("presult mode=phases phases=%d phasefails=%d failed=[%s]\n", nph, fails, failtxt);
  fflush(stdout);
  for (k = 0; k < 4; k++) close(c[k].fd);
  { int w = 0; while (g_gone < g_new && w++ < sp(2000)) usleep(500); }
  phase("shutdown", 25);
  LIBCALL(rfbShutdownServer(S, TRUE));
  phase("cleanup", 25);
  { int w = 0; while (g_gone < g_new && w++ < sp(2000)) usleep(500); }
  LIBCALL(rfbScreenCleanup(S));
  alarm(0);
  printf("result hang=0 mode=phases phases=%d phasefails=%d failed=[%s] new=%d gone=%d bad_unlock=%d held_at_return=%d misuse=%s\n", nph, fails, failtxt, g_new, g_gone, g_bad_unlock, g_held_at_return, misuse_tok());
  print_pairs();
  free(fb);
  return 0;
}

/* ================================================================== policy: sharing decisions inside the threaded lifecycle
 * A (shared) is normal, B finishes ClientInit with the given shared flag under the given screen flags;
 * expected (C14): exclusive = never || (!always && !bshared); exclusive && dontDisconnect -> B refused;
 * exclusive && !dontDisconnect -> A closed; otherwise both stay.  Then the surviving first client is
 * torn down by the given route (0 peer close, 1 rfbCloseClient from the application, 2 only shutdown),
 * a further client connects, and the server is shut down with it connected. */
static int sock_alive(int fd, int ms) {           /* 1 = open and served, 0 = closed by the server, -1 = silent */
  unsigned char m[10] = {3, 0, 0, 0, 0, 0, 0, 4, 0, 4}; unsigned char h[16]; static unsigned char px[W * H * 4]; int waited = 0;
  if (wr_full(fd, m, 10)) return 0;
  ms = sp(ms);
  while (waited < ms) {
    struct pollfd pf = {fd, POLLIN, 0}; int r = poll(&pf, 1, 50), n, i; ssize_t k;
    if (r <= 0) { waited += 50; continue; }
    k = __real_read(fd, h, 1);
    if (k <= 0) return 0;
    if (h[0] == 0) {                              /* a whole FramebufferUpdate (Raw rectangles) */
      if (rd_full(fd, h + 1, 3, 3000)) return 0;
      n = (h[2] << 8) | h[3];
      for (i = 0; i < n; i++) {
        int w, hh;
        if (rd_full(fd, h, 12, 3000)) return 0;
        w = (h[4] << 8) | h[5]; hh = (h[6] << 8) | h[7];
        if ((size_t)w * hh * 4 > sizeof px || rd_full(fd, px, (size_t)w * hh * 4, 3000)) return 0;
      }
      return 1;
    }
    if (h[0] == 2) continue;
    if (h[0] == 3) { if (rd_full(fd, h + 1, 7, 3000)) return 0; { uint32_t l = ((uint32_t)h[4] << 24) | (h[5] << 16) | (h[6] << 8) | h[7]; if (l > sizeof px || rd_full(fd, px, l, 3000)) return 0; } continue; }
    return -1;
  }
  return -1;
}
static int wait_gone(int target, int ms) { int w = 0; ms = sp(ms); while (g_gone < target && w < ms) { usleep(1000); w++; } return g_gone >= target; }

static int run_policy(unsigned seed, int ypct, int always, int never, int dd, int bshared, int route) {
  int argc = 0, port, fa, fb_, fc, exclusive, a_st, b_st, ok_pol, tore = 1, survivor_fd, survivor_slot; uint32_t *fbuf;
  g_seed = seed; g_yield_pct = ypct;
  rfbLogEnable(getenv("VDRV_LOG") != NULL);
  S = rfbGetScreen(&argc, NULL, W, H, 8, 3, 4);
  fbuf = (uint32_t *)calloc(W * H, 4); S->frameBuffer = (char *)fbuf;
  S->deferUpdateTime = 1; S->newClientHook = new_hook;
  S->alwaysShared = always; S->neverShared = never; S->dontDisconnect = dd;
  rfbSetCursor(S, NULL);
  phase("init", 20);
  port = start_server();
  if (port < 0) { printf("result error=nolisten\n"); return 1; }
  LIBCALL(rfbRunEventLoop(S, -1, TRUE));
  phase("policy-connect", 60);
  g_hs_shared = 1; fa = cl_connect(port);
  if (fa < 0 || cl_handshake(fa)) { printf("result error=connectA\n"); return 1; }
  if (sock_alive(fa, 10000) != 1) { printf("result error=initialA\n"); return 1; }
  g_hs_shared = bshared; fb_ = cl_connect(port);
  if (fb_ < 0) { printf("result error=connectB\n"); return 1; }
  b_st = cl_handshake(fb_) ? 0 : sock_alive(fb_, 10000);
  a_st = sock_alive(fa, 10000);
  g_hs_shared = 1;
  exclusive = never || (!always && !bshared);
  ok_pol = exclusive ? (dd ? (a_st == 1 && b_st == 0) : (a_st == 0 && b_st == 1)) : (a_st == 1 && b_st == 1);
  printf("presult mode=policy policy_ok=%d a=%d b=%d exclusive=%d dd=%d\n", ok_pol, a_st, b_st, exclusive, dd);
  fflush(stdout);
  /* teardown of the first client that is still connected */
  survivor_fd = a_st == 1 ? fa : fb_; survivor_slot = a_st == 1 ? 0 : 1;
  phase("policy-teardown", 45);
  { int closed_by_server = (a_st == 0) + (b_st == 0);
    if (!wait_gone(closed_by_server, 10000)) tore = 0;          /* the refused / replaced one */
    if (route == 0) { close(survivor_fd); if (!wait_gone(closed_by_server + 1, 10000)) tore = 0; }
    else if (route == 1 && slots[survivor_slot].live) { LIBCALL(rfbCloseClient(slots[survivor_slot].cl)); if (!wait_gone(closed_by_server + 1, 10000)) tore = 0; close(survivor_fd); }
  }
  printf("presult2 torn_down_in_time=%d new=%d gone=%d\n", tore, g_new, g_gone);
  fflush(stdout);
  fc = cl_connect(port);
  if (fc >= 0 && !cl_handshake(fc)) sock_alive(fc, 2000);
  phase("shutdown", 25);
  LIBCALL(rfbShutdownServer(S, TRUE));
  phase("cleanup", 25);
  { int w = 0; while (g_gone < g_new && w++ < sp(2000)) usleep(500); }
  LIBCALL(rfbScreenCleanup(S));
  alarm(0);
  close(fa); close(fb_); if (fc >= 0) close(fc);
  printf("result hang=0 mode=policy new=%d gone=%d dupgone=%d bad_unlock=%d held_at_return=%d misuse=%s\n", g_new, g_gone, g_dupgone, g_bad_unlock, g_held_at_return, misuse_tok());
  print_pairs();
  free(fbuf);
  return 0;
}

/* ================================================================== fragment: a heavily fragmented update, a slow reader, a mark placed mid-send
 * 60 separate squares are marked (more than maxRectsPerUpdate: the update goes out as its bounding box);
 * socket buffers are tiny and the peer pauses after a few rows, so the output thread blocks in write();
 * the application then changes and marks a pixel of a row that has already been read; the peer resumes,
 * asks again incrementally and must end up with the application's framebuffer. */
#define FW 320
#define FH 240
static enum rfbNewClientAction new_hook_smallbuf(rfbClientPtr cl) {
  int sz = 4096; setsockopt(cl->sock, SOL_SOCKET, SO_SNDBUF, &sz, sizeof sz);
  return new_hook(cl);
}
static int run_fragment(unsigned seed, int ypct) {
  int argc = 0, port, fd, i, n, diff = -1, blocked, got = 0, rounds; static uint32_t cfb[FW * FH]; uint32_t *fbuf;
  unsigned char h[16]; sraRegionPtr rg;
  g_seed = seed; g_yield_pct = ypct;
  rfbLogEnable(getenv("VDRV_LOG") != NULL);
  S = rfbGetScreen(&argc, NULL, FW, FH, 8, 3, 4);
  fbuf = (uint32_t *)calloc(FW * FH, 4); S->frameBuffer = (char *)fbuf;
  for (i = 0; i < FW * FH; i++) fbuf[i] = 0x00400000u + (uint32_t)i;
  S->deferUpdateTime = 1; S->newClientHook = new_hook_smallbuf; S->alwaysShared = TRUE;
  rfbSetCursor(S, NULL);
  phase("init", 20);
  port = start_server();
  if (port < 0) { printf("result error=nolisten\n"); return 1; }
  LIBCALL(rfbRunEventLoop(S, -1, TRUE));
  phase("fragment-connect", 40);
  fd = socket(AF_INET, SOCK_STREAM, 0);
  { int sz = 4096, one = 1; struct sockaddr_in a; setsockopt(fd, SOL_SOCKET, SO_RCVBUF, &sz, sizeof sz);
    memset(&a, 0, sizeof a); a.sin_family = AF_INET; a.sin_port = htons(port); a.sin_addr.s_addr = htonl(INADDR_LOOPBACK);
    if (connect(fd, (struct sockaddr *)&a, sizeof a) < 0) { printf("result error=connect\n"); return 1; }
    setsockopt(fd, IPPROTO_TCP, TCP_NODELAY, &one, sizeof one); }
  if (cl_handshake(fd)) { printf("result error=handshake\n"); return 1; }
  /* initial picture */
  { unsigned char m[10] = {3, 0, 0, 0, 0, 0, (FW >> 8), (FW & 255), (FH >> 8), (FH & 255)}; wr_full(fd, m, 10); }
  if (rd_full(fd, h, 4, 5000) || h[0] != 0) { printf("result error=initial\n"); return 1; }
  n = (h[2] << 8) | h[3];
  for (i = 0; i < n; i++) {
    int x, y, w, hh, yy;
    if (rd_full(fd, h, 12, 5000)) { printf("result error=initial2\n"); return 1; }
    x = (h[0] << 8) | h[1]; y = (h[2] << 8) | h[3]; w = (h[4] << 8) | h[5]; hh = (h[6] << 8) | h[7];
    if (x + w > FW || y + hh > FH) { printf("result error=initial3\n"); return 1; }
    for (yy = 0; yy < hh; yy++) if (rd_full(fd, &cfb[(y + yy) * FW + x], (size_t)w * 4, 5000)) { printf("result error=initial4\n"); return 1; }
  }
  usleep(50000);
  /* no request outstanding: 60 separate squares, one mark */
  phase("fragment-mark", 40);
  rg = sraRgnCreate();
  for (i = 0; i < 60; i++) {
    int sx = (i % 10) * 30 + 2, sy = (i / 10) * 38 + 1, xx, yy; sraRegionPtr r1 = sraRgnCreateRect(sx, sy, sx + 4, sy + 4);
    for (yy = 0; yy < 4; yy++) for (xx = 0; xx < 4; xx++) fbuf[(sy + yy) * FW + sx + xx] = 0x00ff0000u + (uint32_t)i;
    sraRgnOr(rg, r1); sraRgnDestroy(r1);
  }
  LIBCALL(rfbMarkRegionAsModified(S, rg));
  sraRgnDestroy(rg);
  g_write_blocked = 0;
  { unsigned char m[10] = {3, 1, 0, 0, 0, 0, (FW >> 8), (FW & 255), (FH >> 8), (FH & 255)}; wr_full(fd, m, 10); }
  /* the peer reads the header and a few rows of the first rectangle, then pauses */
  if (rd_full(fd, h, 4, 5000) || h[0] != 0) { printf("result error=update\n"); return 1; }
  n = (h[2] << 8) | h[3];
  {
    int r, x = 0, y = 0, w = 0, hh = 0, yy = 0, paused = 0, fail = 0;
    for (r = 0; r < n && !fail; r++) {
      if (rd_full(fd, h, 12, 8000)) { fail = 1; break; }
      x = (h[0] << 8) | h[1]; y = (h[2] << 8) | h[3]; w = (h[4] << 8) | h[5]; hh = (h[6] << 8) | h[7];
      if (h[8] | h[9] | h[10] | h[11] || x + w > FW || y + hh > FH) { fail = 2; break; }
      for (yy = 0; yy < hh; yy++) {
        if (rd_full(fd, &cfb[(y + yy) * FW + x], (size_t)w * 4, 8000)) { fail = 1; break; }
        if (!paused && r == 0 && yy == 12) {
          /* pause: wait until the output thread is blocked in write(), then the application marks */
          int wt = 0; paused = 1;
          while (!g_write_blocked && wt++ < 3000) usleep(1000);
          blocked = g_write_blocked;
          /* pixel (x+3, y+2): inside the rectangle in flight, its row has been read long ago */
          fbuf[(y + 2) * FW + x + 3] = 0x0012abcdu;
          LIBCALL(rfbMarkRectAsModified(S, x + 3, y + 2, x + 4, y + 3));
          usleep(20000);
        }
      }
    }
    got = n;
    if (fail) { printf("presult mode=fragment fragment_ok=0 why=stream%d rects=%d\n", fail, n); fflush(stdout); goto done; }
  }
  /* the peer asks again (incrementally) until it shows the application's framebuffer */
  phase("fragment-settle", 90);
  for (rounds = 0; rounds < sp(60); rounds++) {
    unsigned char m[10] = {3, 1, 0, 0, 0, 0, (FW >> 8), (FW & 255), (FH >> 8), (FH & 255)};
    diff = 0; for (i = 0; i < FW * FH; i++) if (cfb[i] != fbuf[i]) diff++;
    if (!diff) break;
    wr_full(fd, m, 10);
    if (rd_full(fd, h, 4, 200)) continue;
    if (h[0] != 0) break;
    n = (h[2] << 8) | h[3];
    for (i = 0; i < n; i++) {
      int x, y, w, hh, yy;
      if (rd_full(fd, h, 12, 5000)) break;
      x = (h[0] << 8) | h[1]; y = (h[2] << 8) | h[3]; w = (h[4] << 8) | h[5]; hh = (h[6] << 8) | h[7];
      if (x + w > FW || y + hh > FH) break;
      for (yy = 0; yy < hh; yy++) if (rd_full(fd, &cfb[(y + yy) * FW + x], (size_t)w * 4, 5000)) break;
    }
  }
  printf("presult mode=fragment fragment_ok=%d diff=%d rects_in_first_update=%d write_blocked=%d\n", diff == 0, diff, got, blocked);
  fflush(stdout);
done:
  close(fd);
  { int w = 0; while (g_gone < g_new && w++ < sp(4000)) usleep(500); }
  phase("shutdown", 25);
  LIBCALL(rfbShutdownServer(S, TRUE));
  phase("cleanup", 25);
  LIBCALL(rfbScreenCleanup(S));
  alarm(0);
  printf("result hang=0 mode=fragment new=%d gone=%d bad_unlock=%d held_at_return=%d misuse=%s\n", g_new, g_gone, g_bad_unlock, g_held_at_return, misuse_tok());
  print_pairs();
  free(fbuf);
  return 0;
}

static void run_case(char *line) {
  unsigned seed = 1; int y = 20, a = 2, b = 2, c = 1, d = 2, e = 5, f = 1;
  pid_t pid; int status = 0;
  int forced = 0; unsigned pseed = 1; int py = 20, prounds = 1;
  int q1 = 0, q2 = 0, q3 = 0, q4 = 0, q5 = 0;
  if (!strncmp(line, "phases ", 7)) { forced = 9; sscanf(line, "phases %u %d %d", &pseed, &py, &prounds); }
  if (!strncmp(line, "policy ", 7)) { forced = 10; sscanf(line, "policy %u %d %d %d %d %d %d", &pseed, &py, &q1, &q2, &q3, &q4, &q5); }
  if (!strncmp(line, "fragment ", 9)) { forced = 11; sscanf(line, "fragment %u %d", &pseed, &py); }
  if (!strncmp(line, "force lostwakeup", 16)) forced = 1;
  else if (!strncmp(line, "force iteruaf", 13)) forced = 2;
  else if (!strncmp(line, "force shutdownjoin", 18)) forced = 4;
  else if (!strncmp(line, "force cursor", 12)) forced = 3;
  else if (!strncmp(line, "force newfbgone", 15)) forced = 5;
  else if (!strncmp(line, "force newfbaccept", 17)) forced = 6;
  else if (!strncmp(line, "force eintr", 11)) forced = 7;
  else if (!strncmp(line, "force closeinhandshake", 22)) forced = 8;
  sscanf(line, "stress %u %d %d %d %d %d %d %d", &seed, &y, &a, &b, &c, &d, &e, &f);
  fflush(stdout);
  pid = fork();
  if (pid == 0) {
    signal(SIGALRM, on_alarm); signal(SIGPIPE, SIG_IGN);
    if (forced == 9) run_phases(pseed, py, prounds); else
    if (forced == 10) run_policy(pseed, py, q1, q2, q3, q4, q5); else
    if (forced == 11) run_fragment(pseed, py); else
    if (forced) run_forced(forced); else
    run_stress(seed, y, a, b, c, d, e, f);
    fflush(stdout);
    _exit(0);
  }
  { /* the child has its own watchdog (alarm); under TSan a signal may never be delivered when every
       thread is blocked, so the parent bounds the case as well */
    int waited = 0, r;
    while ((r = waitpid(pid, &status, WNOHANG)) == 0 && waited < sp(3000)) { usleep(100000); waited++; }
    if (r == 0) { kill(pid, SIGKILL); while (waitpid(pid, &status, 0) < 0 && errno == EINTR) ; printf("\n#hang phase=%s (killed by the parent)\nresult hang=1\n", "unknown"); fflush(stdout); return; }
  }
  if (WIFEXITED(status) && WEXITSTATUS(status) == 3) printf("result hang=1\n");
  else if (!(WIFEXITED(status) && WEXITSTATUS(status) == 0)) printf("\nresult crash=1 status=%d\n", status);
  fflush(stdout);
}

static void *calib_thread(void *p) { return p; }
static void calibrate(void) {
  struct timeval a, b; volatile unsigned long x = 0; unsigned long i; int k; double save = g_speed;
  g_speed = 1.0;
  gettimeofday(&a, NULL);
  for (i = 0; i < 30000000UL; i++) x += i;
  for (k = 0; k < 100; k++) { pthread_t th; __real_pthread_create(&th, NULL, calib_thread, NULL); __real_pthread_join(th, NULL); }
  for (k = 0; k < 100; k++) usleep(1000);
  gettimeofday(&b, NULL);
  g_speed = save;
  printf("calib ms=%ld\n", (long)((b.tv_sec - a.tv_sec) * 1000 + (b.tv_usec - a.tv_usec) / 1000));
}

int main(void) {
  static char line[4096];
  setvbuf(stdout, NULL, _IOLBF, 0);
  { const char *e = getenv("VDRV_SPEED"), *f = getenv("VDRV_SLOW"); double v = e ? atof(e) : 1.0, w = f ? atof(f) : 1.0;
    if (v < 1.0) v = 1.0; if (w < 1.0) w = 1.0; g_speed = v * w; if (g_speed > 200.0) g_speed = 200.0; }
  while (fgets(line, sizeof line, stdin)) {
    size_t n = strlen(line);
    while (n && (line[n - 1] == '\n' || line[n - 1] == '\r')) line[--n] = 0;
    if (!n) continue;
    if (!strncmp(line, "case ", 5)) { printf("%s\n", line); continue; }
    if (!strncmp(line, "calibrate", 9)) { calibrate(); continue; }
    if (!strncmp(line, "stress ", 7) || !strncmp(line, "force ", 6) || !strncmp(line, "phases ", 7) || !strncmp(line, "policy ", 7) || !strncmp(line, "fragment ", 9)) run_case(line);
  }
  fflush(stdout);
  _exit(0);
}
