/* vdrv_enc_lossy.c - C01, SAMPLED tests of the lossy variants (Tight+JPEG, ZYWRLE): the real server
 * and the real LibVNCClient of /repo are connected through a socketpair (server loop in a
 * thread); after every update the client's framebuffer is compared with the server's and the
 * per-channel error is printed.  These are tests, not proofs: the JPEG / wavelet arithmetic is
 * not modelled.  Script:
 *   case <n> <label>
 *   screen <w> <h>                  32-bpp screen (server default format), client uses the same format
 *   enc <name> <compress|-> <quality|->
 *   fb <hex>                        framebuffer content (w*h*4 bytes)
 *   upd                             full non-incremental update; prints
 *                                   "e2e max=<max abs channel error> mean1000=<mean abs error * 1000> n=<pixels>" */
#include "vsess.h"
#include <rfb/rfbclient.h>
#include <pthread.h>

static rfbScreenInfoPtr scr = NULL;
static rfbClient *cli = NULL;
static pthread_t th;
static volatile int stop_flag = 0, finished = 0;
static int sw, sh;
static char enc_name[64] = "tight";
static int clevel = -1, qlevel = -1;

static void *server_loop(void *arg) {
  (void)arg;
  while (!stop_flag) rfbProcessEvents(scr, 2000);
  return NULL;
}
static volatile long got_area = 0;
static void on_finished(rfbClient *c) { (void)c; finished = 1; }
static void on_rect(rfbClient *c, int x, int y, int w, int h) { (void)c; (void)x; (void)y; got_area += (long)w * h; }
static void quiet_log(const char *fmt, ...) { (void)fmt; }

static void teardown(void) {
  if (cli) { if (cli->sock >= 0) { close(cli->sock); cli->sock = -1; } }
  if (scr) {
    stop_flag = 1; pthread_join(th, NULL); stop_flag = 0;
    vs_pump(scr, 0, NULL, NULL);
    { char *fb = scr->frameBuffer; rfbScreenCleanup(scr); free(fb); }
    scr = NULL;
  }
  if (cli) { rfbClientCleanup(cli); cli = NULL; }
}
static int hexv(int c) { return c <= '9' ? c - '0' : (c | 32) - 'a' + 10; }

static int connect_pair(void) {
  int sv[2];
  if (socketpair(AF_UNIX, SOCK_STREAM, 0, sv) < 0) return -1;
  { int sz = 4 << 20; setsockopt(sv[0], SOL_SOCKET, SO_SNDBUF, &sz, sizeof sz); setsockopt(sv[1], SOL_SOCKET, SO_RCVBUF, &sz, sizeof sz); }
  cli = rfbGetClient(8, 3, 4);
  cli->sock = sv[1];
  cli->canHandleNewFBSize = FALSE;
  cli->appData.encodingsString = enc_name;
  cli->appData.compressLevel = clevel < 0 ? 5 : clevel;
  cli->appData.qualityLevel = qlevel < 0 ? 5 : qlevel;
  cli->appData.enableJPEG = qlevel >= 0;
  cli->appData.useRemoteCursor = TRUE;
  cli->FinishedFrameBufferUpdate = on_finished;
  cli->GotFrameBufferUpdate = on_rect;
  /* the version line of the client is written by InitialiseRFBConnection; start the server first */
  if (!rfbNewClient(scr, sv[0])) return -2;
  pthread_create(&th, NULL, server_loop, NULL);
  if (!rfbClientInitialise(cli)) return -3;
  return 0;
}

static int wait_update(void) {
  int rounds = 0;
  finished = 0; got_area = 0;
  /* an update may carry pseudo-rectangles only: wait until the whole screen has arrived */
  while (!(finished && got_area >= (long)sw * sh) && rounds < 3000) {
    int r = WaitForMessage(cli, 5000);
    if (r < 0) return -1;
    if (r > 0) { finished = 0; if (!HandleRFBServerMessage(cli)) return -2; }
    rounds++;
  }
  return (finished && got_area >= (long)sw * sh) ? 0 : -3;
}

int main(void) {
  size_t cap = 1 << 20; char *line = (char *)malloc(cap); ssize_t len; int first = 1;
  vs_quiet(); if (!getenv("E2E_LOG")) { rfbClientLog = quiet_log; rfbClientErr = quiet_log; }
  while ((len = getline(&line, &cap, stdin)) > 0) {
    char op[32]; int pos = 0;
    while (len > 0 && (line[len - 1] == '\n' || line[len - 1] == '\r')) line[--len] = 0;
    if (sscanf(line, "%31s%n", op, &pos) != 1) continue;
    if (!strcmp(op, "case")) { teardown(); printf("%s\n", line); fflush(stdout); first = 1; continue; }
    if (!strcmp(op, "enc")) {
      char a[16] = "-", b[16] = "-";
      sscanf(line + pos, "%63s %15s %15s", enc_name, a, b);
      clevel = a[0] == '-' ? -1 : atoi(a); qlevel = b[0] == '-' ? -1 : atoi(b);
      continue;
    }
    if (!strcmp(op, "screen")) {
      teardown();
      if (sscanf(line + pos, "%d %d", &sw, &sh) != 2) continue;
      scr = vs_screen(sw, sh, 4); scr->cursor = NULL;
      continue;
    }
    if (!scr) continue;
    if (!strcmp(op, "fb")) {
      char *p = line + pos; size_t n = 0, total = (size_t)sw * sh * 4;
      while (*p == ' ') p++;
      while (p[0] && p[1] && n < total) { scr->frameBuffer[n++] = (char)(hexv(p[0]) * 16 + hexv(p[1])); p += 2; }
      continue;
    }
    if (!strcmp(op, "upd")) {
      int rc;
      if (!cli) {
        rc = connect_pair();
        if (rc) { printf("e2e connect-failed %d\n", rc); fflush(stdout); continue; }
        wait_update();                    /* answer to the request sent by rfbClientInitialise (warm-up) */
      }
      /* LibVNCClient re-requests incrementally after every update, so marking the screen as
         modified is enough; exactly one update is in flight at any time */
      rfbMarkRectAsModified(scr, 0, 0, sw, sh);
      rc = wait_update();
      (void)first;
      if (rc) { printf("e2e no-update %d\n", rc); fflush(stdout); continue; }
      {
        unsigned long long sum = 0; unsigned mx = 0; size_t i, n = (size_t)sw * sh;
        const unsigned char *a = (const unsigned char *)scr->frameBuffer, *b = cli->frameBuffer;
        for (i = 0; i < n; i++) { int k; for (k = 0; k < 3; k++) {
          int d = (int)a[4 * i + k] - (int)b[4 * i + k]; if (d < 0) d = -d;
          sum += (unsigned)d; if ((unsigned)d > mx) mx = (unsigned)d; } }
        printf("e2e max=%u mean1000=%llu n=%zu\n", mx, n ? sum * 1000ULL / (3 * n) : 0ULL, n);
      }
      fflush(stdout);
      continue;
    }
  }
  teardown();
  free(line);
  return 0;
}
