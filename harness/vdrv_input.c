/* C06 (and, through VDRV_CLIP, C18) implementation driver.
 *
 * Executes a session script against the real libvncserver (static ASan build of /repo):
 * socketpair connections handed to rfbNewClient, an application-driven event loop
 * (rfbProcessEvents(screen,0)), application callbacks that log to the observation stream.
 *
 * The network is made deterministic by link-time interposition of select():
 *   - what a peer "sends" is only queued (per connection, a FIFO of fragments);
 *   - whenever the server waits for a connection - the select() of rfbCheckFds or the
 *     select() inside rfbReadExactTimeout/rfbPeekExactTimeout after read() said EAGAIN -
 *     and the kernel holds no byte for it, exactly the next queued fragment is written
 *     ("delivery on demand"); if nothing is queued the wait inside rfbReadExact returns 0
 *     immediately (= the peer stalled for maxClientWait; virtual time, nobody sleeps).
 *   Every split point of the stream is therefore a point where read() really returned short.
 * gettimeofday() is virtual as well (deferred pointer events).
 *
 * One observation line per script line; same format as ocaml/driver_C06.ml. */
#include "vsess.h"
#include <sys/ioctl.h>
#include <poll.h>
#include <netinet/in.h>
#include <arpa/inet.h>
#include <sys/time.h>
#include <sys/select.h>
#include <ctype.h>

#define MAXC 16
#define SHOWLEN 32

typedef struct frag { unsigned char *p; size_t n, off; int fin; struct frag *next; } frag;
typedef struct {
  int used, id;
  int sfd, pfd;            /* server side / peer side of the socketpair */
  int peer_closed;
  rfbClientPtr cl;         /* NULL once rfbClientConnectionGone ran */
  frag *qh, *qt;
  vs_buf out;              /* everything the server wrote to this peer */
  int is_rc;               /* the peer is a real LibVNCClient (vdrv_clip.c) */
  void *rc;
  int dec_on;              /* clipboard messages are decoded from out.rd on (vdrv_clip.c) */
  int ws;                  /* the peer speaks RFB inside WebSocket binary frames (wsconnect) */
  unsigned wsmask;
} conn;

static conn C[MAXC];
static rfbScreenInfoPtr S;
static long long vnow_ms;          /* virtual clock */
static long long waited_ms;        /* virtual time spent in timed-out waits */
static int next_id, next_vo, next_hold;
#define UDP_ID 255
static int udp_hold, udp_port, udp_peer = -1;   /* the UDP input channel (udpon / udp) */

/* ---- event log of the current script line ---- */
static char *ev; static size_t evn, evcap;
static void ev_add(const char *s) {
  size_t l = strlen(s);
  if (evn + l + 2 > evcap) { evcap = (evn + l + 2) * 2 + 256; ev = (char *)realloc(ev, evcap); }
  if (evn) ev[evn++] = ';';
  memcpy(ev + evn, s, l); evn += l; ev[evn] = 0;
}
static void ev_reset(void) { evn = 0; if (ev) ev[0] = 0; }

static unsigned long long fnv(const unsigned char *p, size_t n) {
  unsigned long long h = 14695981039346656037ULL; size_t i;
  for (i = 0; i < n; i++) { h ^= p[i]; h *= 1099511628211ULL; }
  return h;
}
/* text as hex when short, else '#'+FNV-1a 64 of the bytes */
static void fmt_text(char *dst, const unsigned char *p, size_t n) {
  size_t i;
  if (n <= SHOWLEN) { for (i = 0; i < n; i++) sprintf(dst + 2 * i, "%02x", p[i]); dst[2 * n] = 0; if (!n) strcpy(dst, "-"); }
  else sprintf(dst, "#%016llx", fnv(p, n));
}

static int id_of(rfbClientPtr cl) { return (int)(intptr_t)cl->clientData - 1; }

static void cb_kbd(rfbBool down, rfbKeySym key, rfbClientPtr cl) {
  char b[96]; sprintf(b, "K:%d:%u:%u", id_of(cl), (unsigned)(unsigned char)down, (unsigned)key); ev_add(b);
}
static void cb_ptr(int mask, int x, int y, rfbClientPtr cl) {
  char b[96]; sprintf(b, "P:%d:%d:%d:%d", id_of(cl), mask, x, y); ev_add(b);
}
static void cb_cut(char *str, int len, rfbClientPtr cl) {
  char t[2 * SHOWLEN + 32], b[2 * SHOWLEN + 96];
  fmt_text(t, (unsigned char *)str, (size_t)(len < 0 ? 0 : len));
  sprintf(b, "C:%d:%d:%s", id_of(cl), len, t); ev_add(b);
}
static int fill_on;      /* ASan fills fresh heap memory with 0xbe (env VDRV_FILL=1): never-written bytes are visible */
static void cb_cut_utf8(char *str, int len, rfbClientPtr cl) {
  char t[2 * SHOWLEN + 32], b[2 * SHOWLEN + 96];
  int n = len < 0 ? 0 : len, junk = 0;
  if (fill_on) while (junk < n && (unsigned char)str[n - 1 - junk] == 0xbe) junk++;
  fmt_text(t, (unsigned char *)str, (size_t)(n - junk));
  sprintf(b, "U:%d:%d:%s:%d", id_of(cl), len, t, junk); ev_add(b);
}
static void cb_gone(rfbClientPtr cl) {
  int i; for (i = 0; i < MAXC; i++) if (C[i].used && C[i].cl == cl) C[i].cl = NULL;
}
static enum rfbNewClientAction cb_new(rfbClientPtr cl) {
  if (cl->screen->udpSock != RFB_INVALID_SOCKET && cl->sock == cl->screen->udpSock) {
    /* rfbNewUDPClient: the record callbacks of the UDP channel are attributed to */
    cl->clientData = (void *)(intptr_t)(UDP_ID + 1);
    return udp_hold ? RFB_CLIENT_ON_HOLD : RFB_CLIENT_ACCEPT;
  }
  cl->clientData = (void *)(intptr_t)(next_id + 1);
  cl->clientGoneHook = cb_gone;
  if (next_vo) cl->viewOnly = TRUE;
  return next_hold ? RFB_CLIENT_ON_HOLD : RFB_CLIENT_ACCEPT;
}

/* ---- the deterministic network ---- */
static conn *by_sfd(int fd) { int i; for (i = 0; i < MAXC; i++) if (C[i].used && C[i].sfd == fd && C[i].cl) return &C[i]; return NULL; }
static conn *by_id(int id) { int i; for (i = 0; i < MAXC; i++) if (C[i].used && C[i].id == id) return &C[i]; return NULL; }

static void q_push(conn *c, const unsigned char *p, size_t n, int fin) {
  frag *f = (frag *)calloc(1, sizeof *f);
  if (n) { f->p = (unsigned char *)malloc(n); memcpy(f->p, p, n); }
  f->n = n; f->fin = fin;
  if (c->qt) c->qt->next = f; else c->qh = f;
  c->qt = f;
}
/* one masked WebSocket frame (RFC 6455) = one fragment of the stream */
static unsigned ws_rand(conn *c) { c->wsmask = c->wsmask * 1103515245u + 12345u; return c->wsmask >> 8; }
static void q_push_frame(conn *c, int opcode, int fin, const unsigned char *p, size_t n) {
  unsigned char *f = (unsigned char *)malloc(n + 14); size_t h = 0, i; unsigned char m[4]; unsigned r = ws_rand(c);
  m[0] = r >> 16; m[1] = r >> 8; m[2] = r; m[3] = r >> 4;
  f[h++] = (unsigned char)((fin ? 0x80 : 0) | opcode);
  if (n < 126) f[h++] = 0x80 | (unsigned char)n;
  else if (n < 65536) { f[h++] = 0x80 | 126; f[h++] = (unsigned char)(n >> 8); f[h++] = (unsigned char)n; }
  else { int k; f[h++] = 0x80 | 127; for (k = 7; k >= 0; k--) f[h++] = (unsigned char)((unsigned long long)n >> (8 * k)); }
  memcpy(f + h, m, 4); h += 4;
  for (i = 0; i < n; i++) f[h + i] = p[i] ^ m[i & 3];
  q_push(c, f, h + n, 0); free(f);
}
/* ws == 1: every fragment is one unfragmented binary message;
 * ws == 2: every fragment is a FRAGMENTED message (binary FIN=0, continuation..., continuation FIN=1);
 * ws == 3: as 2, with ping/pong control frames (which RFC 6455 allows there) between the fragments and messages */
static void q_push_ws(conn *c, const unsigned char *p, size_t n) {
  static const unsigned char pingdata[5] = {'v', 'e', 'r', 'i', 'f'};
  if (c->ws >= 3 && ws_rand(c) % 3 == 0) q_push_frame(c, (ws_rand(c) & 1) ? 0x9 : 0xA, 1, pingdata, ws_rand(c) % 6);
  if (c->ws == 1 || n < 2) { q_push_frame(c, 0x2, 1, p, n); return; }
  { size_t k = 2 + ws_rand(c) % 2, i, off = 0;           /* 2 or 3 pieces */
    if (k > n) k = n;
    for (i = 0; i < k; i++) {
      size_t len = (i == k - 1) ? n - off : 1 + ws_rand(c) % (n - off - (k - 1 - i));
      q_push_frame(c, i == 0 ? 0x2 : 0x0, i == k - 1, p + off, len);
      off += len;
      if (c->ws >= 3 && i < k - 1 && ws_rand(c) % 2 == 0)
        q_push_frame(c, (ws_rand(c) & 1) ? 0x9 : 0xA, 1, pingdata, ws_rand(c) % 6);
    } }
}
static void q_clear(conn *c) { while (c->qh) { frag *f = c->qh; c->qh = f->next; free(f->p); free(f); } c->qt = NULL; }

/* the kernel holds nothing for the server side of c: let the next fragment arrive.
 * returns 1 if something (bytes or EOF) was delivered */
static int deliver(conn *c) {
  while (c->qh && !c->peer_closed) {
    frag *f = c->qh;
    if (f->fin) {
      shutdown(c->pfd, SHUT_WR); c->peer_closed = 1;
      c->qh = f->next; if (!c->qh) c->qt = NULL; free(f);
      q_clear(c);
      return 1;
    }
    if (f->off < f->n) {
      ssize_t k = write(c->pfd, f->p + f->off, f->n - f->off);
      if (k > 0) {
        f->off += (size_t)k;
        if (f->off == f->n) { c->qh = f->next; if (!c->qh) c->qt = NULL; free(f->p); free(f); }
        return 1;
      }
      return 0;     /* cannot happen with an empty receive queue */
    }
    c->qh = f->next; if (!c->qh) c->qt = NULL; free(f->p); free(f);   /* empty fragment: nothing arrives */
  }
  return 0;
}
static int kernel_empty(conn *c) { int n = 0; if (ioctl(c->sfd, FIONREAD, &n) < 0) return 0; return n == 0; }

int __real_select(int, fd_set *, fd_set *, fd_set *, struct timeval *);
#ifdef VDRV_CLIP
static void clip_before_select(int nfds, fd_set *r);
static void clip_print_extra(void);
static void clip_teardown(void);
#endif
int __wrap_select(int nfds, fd_set *r, fd_set *w, fd_set *e, struct timeval *tv) {
  struct timeval z = {0, 0};
  if (r && e == r && !w) {
    /* rfbReadExactTimeout / rfbPeekExactTimeout waiting for one connection */
    int fd; conn *c = NULL;
    for (fd = 0; fd < nfds; fd++) if (FD_ISSET(fd, r)) { c = by_sfd(fd); break; }
    if (c && !c->peer_closed && kernel_empty(c)) {
      if (!deliver(c)) {
        if (tv) waited_ms += tv->tv_sec * 1000LL + tv->tv_usec / 1000;
        FD_ZERO(r);
        return 0;                       /* timeout, immediately */
      }
    }
    return __real_select(nfds, r, NULL, r, &z);
  }
  if (r && !w && !e) {
    /* rfbCheckFds: every open connection is waited for */
    int i;
#ifdef VDRV_CLIP
    clip_before_select(nfds, r);
#endif
    for (i = 0; i < MAXC; i++)
      if (C[i].used && C[i].cl && C[i].sfd < nfds && FD_ISSET(C[i].sfd, r) && !C[i].peer_closed && kernel_empty(&C[i]))
        deliver(&C[i]);
    return __real_select(nfds, r, NULL, NULL, &z);
  }
  return __real_select(nfds, r, w, e, tv);
}

int __real_gettimeofday(struct timeval *tv, void *tz);
int __wrap_gettimeofday(struct timeval *tv, void *tz) {
  if (tv) { tv->tv_sec = 1000000 + vnow_ms / 1000; tv->tv_usec = (vnow_ms % 1000) * 1000; }
  return 0;
}

/* ---- helpers ---- */
static int hexval(int c) { return c <= '9' ? c - '0' : (c | 32) - 'a' + 10; }
/* parse "hex,hex,-,hex" into fragments queued on c */
static void queue_frags(conn *c, const char *s) {
  while (*s) {
    const char *e = s; size_t n, i; unsigned char *b;
    while (*e && *e != ',' && !isspace((unsigned char)*e)) e++;
    if (e - s == 1 && *s == '-') { if (!c->ws) q_push(c, NULL, 0, 0); }
    else if (e > s) {
      n = (size_t)(e - s) / 2; b = (unsigned char *)malloc(n ? n : 1);
      for (i = 0; i < n; i++) b[i] = (unsigned char)(hexval(s[2 * i]) * 16 + hexval(s[2 * i + 1]));
      if (c->ws) q_push_ws(c, b, n); else q_push(c, b, n, 0);
      free(b);
    }
    if (*e != ',') break;
    s = e + 1;
  }
}

static void drain_all(void) { int i; for (i = 0; i < MAXC; i++) if (C[i].used && C[i].pfd >= 0 && !C[i].is_rc) vs_drain(C[i].pfd, &C[i].out); }

static char *pwlist[9];
static char pwstore[8][16];

static void teardown(void) {
  int i;
#ifdef VDRV_CLIP
  clip_teardown();
#endif
  if (S) {
    for (i = 0; i < MAXC; i++) if (C[i].used) q_clear(&C[i]);
    rfbShutdownServer(S, TRUE);
    for (i = 0; i < MAXC; i++) if (C[i].used) { if (C[i].pfd >= 0 && !C[i].is_rc) close(C[i].pfd); free(C[i].out.p); }
    { char *fb = S->frameBuffer; rfbScreenCleanup(S); free(fb); }
    S = NULL;
  }
  memset(C, 0, sizeof C);
  vnow_ms = 0; waited_ms = 0;
  if (udp_peer >= 0) close(udp_peer);
  udp_peer = -1; udp_port = 0; udp_hold = 0; next_hold = 0;
}

#ifdef VDRV_CLIP
static void clip_screen_setup(rfbScreenInfoPtr s);
#endif

static void setup(int w, int h, int npw, int firstvo, int never, int always, int dontdisc, int deferptr, int utf8) {
  int i;
  teardown();
  S = vs_screen(w, h, 4);
  S->kbdAddEvent = cb_kbd; S->ptrAddEvent = cb_ptr; S->setXCutText = cb_cut;
  S->setXCutTextUTF8 = utf8 ? cb_cut_utf8 : NULL;
  S->newClientHook = cb_new;
  S->neverShared = never; S->alwaysShared = always; S->dontDisconnect = dontdisc;
  S->deferPtrUpdateTime = deferptr;
  if (npw > 0) {
    for (i = 0; i < npw && i < 8; i++) { sprintf(pwstore[i], "pw%dxyz", i); pwlist[i] = pwstore[i]; }
    pwlist[i] = NULL;
    S->authPasswdData = (void *)pwlist; S->authPasswdFirstViewOnly = firstvo;
    S->passwordCheck = rfbCheckPasswordByList;
  }
}

static void print_state(const char *tag) {
  rfbClientIteratorPtr it; rfbClientPtr cl; int first = 1;
  printf("%s ev=[%s] cl=[", tag, ev ? ev : "");
  it = rfbGetClientIterator(S);
  while ((cl = rfbClientIteratorNext(it))) {
    printf("%s%d:%d:%d:%d:%d:%d:%d", first ? "" : ";", id_of(cl), (int)cl->state, cl->viewOnly ? 1 : 0,
           cl->scaledScreen->width, cl->scaledScreen->height, cl->lastPtrButtons,
#ifdef LIBVNCSERVER_HAVE_LIBZ
           cl->enableExtendedClipboard ? 1 : 0
#else
           0
#endif
           );
    if (cl->lastPtrX >= 0) printf(":%d,%d", cl->lastPtrX, cl->lastPtrY); else printf(":-");
    first = 0;
  }
  rfbReleaseClientIterator(it);
  if (S->pointerClient) printf("] own=%d", id_of(S->pointerClient)); else printf("] own=-");
#ifdef VDRV_CLIP
  clip_print_extra();
#endif
  printf("\n");
}

#ifdef VDRV_CLIP
static int clip_op(const char *op, char *line);
#endif

#ifndef VDRV_NO_MAIN
int main(void) {
  char *line = NULL; size_t cap = 0; ssize_t len;
  vs_quiet();
  fill_on = getenv("VDRV_FILL") && atoi(getenv("VDRV_FILL"));
  setvbuf(stdout, NULL, _IOFBF, 1 << 20);
  while ((len = getline(&line, &cap, stdin)) > 0) {
    char op[32]; int a[10]; int n, pos = 0;
    while (len > 0 && (line[len - 1] == '\n' || line[len - 1] == '\r')) line[--len] = 0;
    if (sscanf(line, "%31s%n", op, &pos) < 1) continue;
    ev_reset();
    if (!strcmp(op, "case")) { teardown(); puts(line); fflush(stdout); continue; }
    if (!strcmp(op, "screen")) {
      n = sscanf(line + pos, "%d %d %d %d %d %d %d %d %d", &a[0], &a[1], &a[2], &a[3], &a[4], &a[5], &a[6], &a[7], &a[8]);
      if (n != 9) { printf("?? %s\n", line); continue; }   /* a 10th number (model variant) is for the model driver only */
      setup(a[0], a[1], a[2], a[3], a[4], a[5], a[6], a[7], a[8]);
#ifdef VDRV_CLIP
      clip_screen_setup(S);
#endif
      print_state("screen"); continue;
    }
    if (!strcmp(op, "sx")) {          /* direct ScaleX(from,to,x) on two screens of the given widths */
      static rfbScreenInfo f, t;
      n = sscanf(line + pos, "%d %d %d", &a[0], &a[1], &a[2]);
      f.width = a[0]; t.width = a[1]; f.height = a[0]; t.height = a[1];
      printf("sx %d %d\n", ScaleX(&f, &t, a[2]), ScaleY(&f, &t, a[2])); continue;
    }
    if (!S) { printf("?? no screen: %s\n", line); continue; }
    if (!strcmp(op, "connect") || !strcmp(op, "wsconnect") || !strcmp(op, "hconnect")) {
      int sv[2], i, sz = 4 << 20; conn *c = NULL; int isws = op[0] == 'w';
      next_hold = op[0] == 'h';      /* hconnect: newClientHook answers RFB_CLIENT_ON_HOLD */
      a[2] = 1;
      n = sscanf(line + pos, "%d %d %d", &a[0], &a[1], &a[2]);     /* wsconnect: optional framing mode 1..3 */
      if (n == 3) n = 2;
      for (i = 0; i < MAXC; i++) if (!C[i].used) { c = &C[i]; break; }
      if (n != 2 || !c || by_id(a[0]) || socketpair(AF_UNIX, SOCK_STREAM, 0, sv) < 0) { printf("?? %s\n", line); continue; }
      fcntl(sv[1], F_SETFL, fcntl(sv[1], F_GETFL) | O_NONBLOCK);
      setsockopt(sv[0], SOL_SOCKET, SO_SNDBUF, &sz, sizeof sz); setsockopt(sv[1], SOL_SOCKET, SO_RCVBUF, &sz, sizeof sz);
      setsockopt(sv[1], SOL_SOCKET, SO_SNDBUF, &sz, sizeof sz); setsockopt(sv[0], SOL_SOCKET, SO_RCVBUF, &sz, sizeof sz);
      memset(c, 0, sizeof *c);
      c->used = 1; c->id = a[0]; c->sfd = sv[0]; c->pfd = sv[1];
      next_id = a[0]; next_vo = a[1];
      c->cl = (rfbClientPtr)1;      /* visible to the select wrap during rfbNewClient's WebSocket peek */
      if (isws) {
        static const char req[] = "GET /vnc HTTP/1.1\r\nHost: verif\r\nUpgrade: websocket\r\nConnection: Upgrade\r\n"
          "Sec-WebSocket-Key: dGhlIHNhbXBsZSBub25jZQ==\r\nOrigin: http://verif\r\nSec-WebSocket-Protocol: binary\r\n"
          "Sec-WebSocket-Version: 13\r\n\r\n";
        q_push(c, (const unsigned char *)req, sizeof req - 1, 0);   /* arrives when the server peeks */
      }
      c->cl = rfbNewClient(S, sv[0]);
      if (c->cl) c->ws = isws ? (a[2] >= 1 && a[2] <= 3 ? a[2] : 1) : 0;
      drain_all();
      print_state(op); continue;
    }
    if (!strcmp(op, "send")) {
      int p2 = 0; conn *c;
      n = sscanf(line + pos, "%d %n", &a[0], &p2);
      c = by_id(a[0]);
      if (c && c->cl) queue_frags(c, line + pos + p2);
      print_state("send"); continue;
    }
    if (!strcmp(op, "eof")) {
      conn *c; n = sscanf(line + pos, "%d", &a[0]); c = by_id(a[0]);
      if (c && c->cl) q_push(c, NULL, 0, 1);
      print_state("eof"); continue;
    }
    if (!strcmp(op, "auth")) {        /* auth <id> <k> <size,size,...>: response made with password k (-1: none) */
      int p2 = 0; conn *c; unsigned char resp[16]; const char *s; size_t off = 0;
      n = sscanf(line + pos, "%d %d %n", &a[0], &a[1], &p2);
      c = by_id(a[0]);
      if (c && c->cl) {
        drain_all();
        if (c->out.n >= 16) memcpy(resp, c->out.p + c->out.n - 16, 16); else memset(resp, 0, 16);
        rfbEncryptBytes(resp, a[1] >= 0 && a[1] < 8 ? pwstore[a[1]] : (char *)"nopasswd");
        s = line + pos + p2;
        while (*s && off < 16) {
          int k = atoi(s); if (k < 0) k = 0; if (off + k > 16) k = 16 - (int)off;
          q_push(c, resp + off, (size_t)k, 0); off += (size_t)k;
          while (*s && *s != ',') s++;
          if (*s == ',') s++;
        }
        if (off < 16) q_push(c, resp + off, 16 - off, 0);
      }
      print_state("auth"); continue;
    }
    if (!strcmp(op, "vo")) {
      conn *c; n = sscanf(line + pos, "%d %d", &a[0], &a[1]); c = by_id(a[0]);
      if (c && c->cl) c->cl->viewOnly = a[1] ? TRUE : FALSE;
      print_state("vo"); continue;
    }
    if (!strcmp(op, "rev")) {         /* what rfbReverseConnection does to the record rfbNewClient returned */
      conn *c; n = sscanf(line + pos, "%d", &a[0]); c = by_id(a[0]);
      if (c && c->cl) c->cl->reverseConnection = TRUE;
      print_state("rev"); continue;
    }
    if (!strcmp(op, "release")) {     /* rfbStartOnHoldClient */
      conn *c; n = sscanf(line + pos, "%d", &a[0]); c = by_id(a[0]);
      if (c && c->cl && c->cl->onHold) rfbStartOnHoldClient(c->cl);
      print_state("release"); continue;
    }
    if (!strcmp(op, "udpon")) {       /* udpon <hold>: what rfbInitSockets does for screen->udpPort != 0 (loopback, ephemeral port) */
      n = sscanf(line + pos, "%d", &a[0]);
      if (S->udpSock == RFB_INVALID_SOCKET) {
        rfbSocket u = rfbListenOnUDPPort(0, htonl(INADDR_LOOPBACK));
        if (u != RFB_INVALID_SOCKET) {
          struct sockaddr_in sa; socklen_t al = sizeof sa;
          getsockname(u, (struct sockaddr *)&sa, &al);
          S->udpPort = ntohs(sa.sin_port); udp_port = S->udpPort; udp_hold = n == 1 && a[0];
          S->udpSock = u;
          FD_SET(u, &(S->allFds)); S->maxFd = rfbMax((int)u, S->maxFd);
        }
      }
      print_state("udpon"); continue;
    }
    if (!strcmp(op, "udp")) {         /* udp <hex>: one datagram from the UDP peer, then one rfbProcessEvents pass */
      unsigned char b[64]; size_t nb = 0; const char *h = line + pos;
      while (*h == ' ') h++;
      while (isxdigit((unsigned char)h[0]) && isxdigit((unsigned char)h[1]) && nb < sizeof b) { b[nb++] = (unsigned char)(hexval(h[0]) * 16 + hexval(h[1])); h += 2; }
      if (udp_port) {
        struct sockaddr_in sa; struct pollfd pf;
        memset(&sa, 0, sizeof sa);
        if (udp_peer < 0) udp_peer = socket(AF_INET, SOCK_DGRAM, 0);
        sa.sin_family = AF_INET; sa.sin_port = htons((unsigned short)udp_port); sa.sin_addr.s_addr = htonl(INADDR_LOOPBACK);
        sendto(udp_peer, b, nb, 0, (struct sockaddr *)&sa, sizeof sa);
        pf.fd = S->udpSock; pf.events = POLLIN; pf.revents = 0; poll(&pf, 1, 500);
      }
      rfbProcessEvents(S, 0);
      drain_all();
      print_state("udp"); continue;
    }
    if (!strcmp(op, "tick")) { n = sscanf(line + pos, "%d", &a[0]); vnow_ms += a[0]; print_state("tick"); continue; }
    if (!strcmp(op, "p")) {
      rfbProcessEvents(S, 0);
      drain_all();
      print_state("p"); continue;
    }
#ifdef VDRV_CLIP
    if (clip_op(op, line + pos)) continue;
#endif
    printf("?? %s\n", line);
  }
  teardown();
  return 0;
}
#endif
