/* C10 implementation driver: runs a pixel-translation script against the real library.
 *
 * For every case the server format (screen->serverFormat, screen->colourMap), the client format
 * (cl->format) and rfbEconomicTranslate are set directly on a real rfbScreenInfo / rfbClientRec
 * (client connected through a socketpair, so that rfbSetClientColourMapBGR233 can write its
 * SetColourMapEntries message), rfbSetTranslateFunction(cl) is called and the function it chose is
 * applied to input areas that END EXACTLY at a PROT_NONE guard region (an over-read faults whatever
 * the optimiser did) and to an output buffer fenced by a canary in front and a guard region behind.
 *
 * ops (one observation line each, same format as ocaml/driver_C10.ml):
 *   sf|cf bpp depth be tc rmax gmax bmax rs gs bs      (no output)
 *   econ 0|1                                           (no output)
 *   cmap is16 count v...                               (no output)
 *   recmap ready is16 count v...  (screen->colourMap changed, then rfbSetClientColourMap(cl,0,0))
 *              -> recmap ret=1 mod=full|empty tbl=<bytes> tsum=<fnv64>
 *   setupmsg be_byte tc_byte      like setup, but cf is delivered by a real SetPixelFormat message whose
 *                                 bigEndian / trueColour bytes are the given raw values
 *   newfb bps spp bytespp         rfbNewFramebuffer(...) -> newfb sf=<10 ints> client ok=1 fn=.. cf=.. msg=.. tbl=.. tsum=..
 *   setup      -> setup ok=1 fn=none|table cf=<10 ints> msg=<hex|-> tbl=<bytes|-> tsum=<fnv64|->
 *                 setup ok=0 | setup crash
 *   xlate stride w h <hex input, buffer ends at the guard>
 *              -> xlate out=<hex> | xlate FAULT at=<offset from iptr> | xlate nosetup
 *   extent stride w h -> extent hi=<smallest input length for which the call does not fault>
 */
#define _GNU_SOURCE
#include <stdio.h>
#include <stdlib.h>
#include <string.h>
#include <signal.h>
#include <setjmp.h>
#include <malloc.h>
#include <sys/mman.h>
#include <rfb/rfb.h>
#include "vsess.h"

extern rfbBool rfbEconomicTranslate;

#define GUARD_PAGES 64
#define PAGE 4096
#define IN_CAP  (8u << 20)
#define OUT_CAP (8u << 20)
#define CANARY 64

static unsigned char *in_region, *in_guard;    /* [in_region, in_guard) rw ; [in_guard, +GUARD) none */
static unsigned char *out_region, *out_guard;
static sigjmp_buf jb;
static volatile int armed = 0;
static volatile long fault_addr = 0;
static volatile int fault_sig = 0;

static void on_fault(int sig, siginfo_t *si, void *uc) {
  (void)uc;
  if (!armed) { signal(sig, SIG_DFL); raise(sig); return; }
  fault_sig = sig;
  fault_addr = (long)(uintptr_t)si->si_addr;
  armed = 0;
  siglongjmp(jb, 1);
}

static unsigned char *map_with_guard(size_t cap, unsigned char **guard) {
  size_t tot = cap + (size_t)GUARD_PAGES * PAGE;
  unsigned char *p = mmap(NULL, tot, PROT_READ | PROT_WRITE, MAP_PRIVATE | MAP_ANONYMOUS, -1, 0);
  if (p == MAP_FAILED) { perror("mmap"); exit(2); }
  *guard = p + cap;
  if (mprotect(*guard, (size_t)GUARD_PAGES * PAGE, PROT_NONE) != 0) { perror("mprotect"); exit(2); }
  return p;
}

static rfbScreenInfoPtr screen;
static rfbClientPtr cl;
static int peer = -1;
static vs_buf pbuf;
static int setup_ok = 0;
static rfbPixelFormat sf, cf;
static int econ = 0;
static uint16_t *cm_shorts; static uint8_t *cm_bytes; static int cm_is16 = 0; static uint32_t cm_count = 0;

static void new_client(void) {
  if (cl) { rfbCloseClient(cl); rfbClientConnectionGone(cl); cl = NULL; }
  if (peer >= 0) { close(peer); peer = -1; }
  cl = vs_connect_raw(screen, &peer);
  if (!cl) { fprintf(stderr, "cannot create client\n"); exit(2); }
  pbuf.n = pbuf.rd = 0;
  /* complete the RFB handshake so that real client messages (SetPixelFormat) can be delivered */
  if (vs_handshake_none(screen, peer, &pbuf, 1) != 0) { fprintf(stderr, "handshake failed\n"); exit(2); }
  vs_drain(peer, &pbuf); pbuf.n = pbuf.rd = 0;
}

static void parse_fmt(const char *s, rfbPixelFormat *f) {
  int a[10];
  memset(f, 0, sizeof *f);
  if (sscanf(s, "%d %d %d %d %d %d %d %d %d %d", &a[0], &a[1], &a[2], &a[3], &a[4], &a[5], &a[6], &a[7], &a[8], &a[9]) != 10) return;
  /* flags the way applications and the library write them: TRUE (-1) / FALSE */
  f->bitsPerPixel = a[0]; f->depth = a[1]; f->bigEndian = a[2] ? TRUE : FALSE; f->trueColour = a[3] ? TRUE : FALSE;
  f->redMax = a[4]; f->greenMax = a[5]; f->blueMax = a[6]; f->redShift = a[7]; f->greenShift = a[8]; f->blueShift = a[9];
}

static uint64_t fnv64(const unsigned char *p, size_t n) {
  uint64_t h = 0xcbf29ce484222325ULL; size_t i;
  for (i = 0; i < n; i++) { h ^= p[i]; h *= 1099511628211ULL; }
  return h;
}

static void puthex(const unsigned char *p, size_t n) {
  static const char hx[] = "0123456789abcdef"; size_t i;
  for (i = 0; i < n; i++) { putchar(hx[p[i] >> 4]); putchar(hx[p[i] & 15]); }
}

static int hexv(int c) { return c >= '0' && c <= '9' ? c - '0' : c >= 'a' && c <= 'f' ? c - 'a' + 10 : c >= 'A' && c <= 'F' ? c - 'A' + 10 : -1; }

/* fill the stack area the library is about to use with a known pattern, so that a struct field the
 * library sends without initialising it shows up deterministically (0x5a) instead of by chance */
static void __attribute__((noinline)) poison_stack(void) {
  volatile unsigned char a[16384]; size_t i;
  for (i = 0; i < sizeof a; i++) a[i] = 0x5a;
}

static void print_setup_obs(const char *tag) {
  printf("%s ok=1 fn=%s cf=%d %d %d %d %d %d %d %d %d %d msg=", tag, cl->translateFn == rfbTranslateNone ? "none" : "table",
         cl->format.bitsPerPixel, cl->format.depth, cl->format.bigEndian ? 1 : 0, cl->format.trueColour ? 1 : 0,
         cl->format.redMax, cl->format.greenMax, cl->format.blueMax, cl->format.redShift, cl->format.greenShift, cl->format.blueShift);
  if (pbuf.n) puthex(pbuf.p, pbuf.n); else putchar('-');
  if (cl->translateFn == rfbTranslateNone || !cl->translateLookupTable) printf(" tbl=- tsum=-\n");
  else {
    size_t n = malloc_usable_size(cl->translateLookupTable);
    printf(" tbl=%zu tsum=%016llx\n", n, (unsigned long long)fnv64((unsigned char *)cl->translateLookupTable, n));
  }
}

/* wire = 0: cl->format written directly, rfbSetTranslateFunction called (as the library does after ClientInit);
 * wire = 1: a real SetPixelFormat message with the raw flag bytes be_byte / tc_byte is sent by the peer and
 * processed by rfbProcessClientMessage */
static void do_setup(int wire, int be_byte, int tc_byte) {
  rfbBool ok;
  setup_ok = 0;
  if (!cl || cl->sock < 0) new_client();
  screen->serverFormat = sf;
  screen->colourMap.is16 = cm_is16; screen->colourMap.count = cm_count;
  if (cm_is16) screen->colourMap.data.shorts = cm_shorts; else screen->colourMap.data.bytes = cm_bytes;
  rfbEconomicTranslate = econ;
  pbuf.n = pbuf.rd = 0;
  if (wire) {
    unsigned char m[20]; memset(m, 0, sizeof m);
    m[0] = 0; m[4] = cf.bitsPerPixel; m[5] = cf.depth; m[6] = (unsigned char)be_byte; m[7] = (unsigned char)tc_byte;
    vs_put16(m + 8, cf.redMax); vs_put16(m + 10, cf.greenMax); vs_put16(m + 12, cf.blueMax);
    m[14] = cf.redShift; m[15] = cf.greenShift; m[16] = cf.blueShift;
    vs_write(peer, m, 20);
  } else cl->format = cf;
  armed = 1;
  if (sigsetjmp(jb, 1)) {
    printf("setup crash\n");
    if (wire) new_client();            /* the message may be half consumed */
    return;
  }
  poison_stack();
  if (wire) { rfbProcessClientMessage(cl); ok = (cl->sock >= 0); }
  else ok = rfbSetTranslateFunction(cl);
  armed = 0;
  vs_drain(peer, &pbuf);
  if (!ok) { printf("setup ok=0\n"); new_client(); return; }
  setup_ok = 1;
  print_setup_obs("setup");
}

/* the application replaces the framebuffer: rfbNewFramebuffer(screen, fb, 4, 4, bps, spp, bytespp) */
static void do_newfb(int bps, int spp, int bytespp) {
  char *fb;
  if (!setup_ok) { printf("newfb nosetup\n"); return; }
  if (bytespp < 1 || bytespp > 4) { printf("newfb badarg\n"); return; }
  fb = calloc(16, (size_t)bytespp);
  pbuf.n = pbuf.rd = 0;
  armed = 1;
  if (sigsetjmp(jb, 1)) { printf("newfb crash\n"); setup_ok = 0; return; }
  poison_stack();
  rfbNewFramebuffer(screen, fb, 4, 4, bps, spp, bytespp);
  armed = 0;
  vs_drain(peer, &pbuf);
  sf = screen->serverFormat; cm_is16 = 0; cm_count = 0;
  printf("newfb sf=%d %d %d %d %d %d %d %d %d %d ", sf.bitsPerPixel, sf.depth, sf.bigEndian ? 1 : 0, sf.trueColour ? 1 : 0,
         sf.redMax, sf.greenMax, sf.blueMax, sf.redShift, sf.greenShift, sf.blueShift);
  if (cl->sock < 0) { printf("ok=0\n"); setup_ok = 0; new_client(); return; }
  print_setup_obs("client");
}

/* run the translate function on an input of L bytes ending at the guard; returns 0 ok, 1 read fault
 * (*at = offset from iptr), 2 other fault */
static int run_xlate(unsigned char *ip, size_t L, int stride, int w, int h, size_t outlen, unsigned char **outp, long *at) {
  unsigned char *op = out_guard - outlen;
  (void)L;
  memset(op - CANARY, 0xA5, CANARY);
  memset(op, 0xEE, outlen);
  *outp = op;
  armed = 1;
  if (sigsetjmp(jb, 1)) {
    long a = fault_addr;
    if (a >= (long)(uintptr_t)in_region && a < (long)(uintptr_t)in_guard + GUARD_PAGES * PAGE) { *at = a - (long)(uintptr_t)ip; return 1; }
    *at = a - (long)(uintptr_t)op;
    return 2;
  }
  (*cl->translateFn)(cl->translateLookupTable, &screen->serverFormat, &cl->format, (char *)ip, (char *)op, stride, w, h);
  armed = 0;
  return 0;
}

static int canary_ok(unsigned char *op) {
  int i; for (i = 1; i <= CANARY; i++) if (op[-i] != 0xA5) return 0;
  return 1;
}

int main(void) {
  char *line = NULL; size_t cap = 0; ssize_t len;
  struct sigaction sa;
  vs_quiet();
  in_region = map_with_guard(IN_CAP, &in_guard);
  out_region = map_with_guard(OUT_CAP, &out_guard);
  cm_shorts = calloc(65536 * 3, 2); cm_bytes = calloc(65536 * 3, 1);
  screen = vs_screen(4, 4, 4);
  if (!screen) return 2;
  new_client();
  memset(&sa, 0, sizeof sa);
  sa.sa_sigaction = on_fault; sa.sa_flags = SA_SIGINFO | SA_NODEFER;
  sigemptyset(&sa.sa_mask);
  sigaction(SIGSEGV, &sa, NULL); sigaction(SIGBUS, &sa, NULL); sigaction(SIGFPE, &sa, NULL);
  memset(&sf, 0, sizeof sf); memset(&cf, 0, sizeof cf);

  while ((len = getline(&line, &cap, stdin)) > 0) {
    char op[32]; int off = 0;
    if (sscanf(line, "%31s%n", op, &off) < 1) continue;
    if (!strcmp(op, "case")) {
      fputs(line, stdout); if (line[len - 1] != '\n') putchar('\n');
      setup_ok = 0; econ = 0; cm_is16 = 0; cm_count = 0;
      memset(&sf, 0, sizeof sf); memset(&cf, 0, sizeof cf);
    } else if (!strcmp(op, "sf")) parse_fmt(line + off, &sf);
    else if (!strcmp(op, "cf")) parse_fmt(line + off, &cf);
    else if (!strcmp(op, "econ")) econ = atoi(line + off);
    else if (!strcmp(op, "cmap")) {
      char *p = line + off, *e; long i = 0, n;
      cm_is16 = (int)strtol(p, &p, 10); cm_count = (uint32_t)strtol(p, &p, 10);
      /* the data arrays always hold 65536*3 entries so that the library never reads unmapped memory;
         entries not given in the script are 0 */
      memset(cm_shorts, 0, 65536 * 3 * 2); memset(cm_bytes, 0, 65536 * 3);
      for (;;) { n = strtol(p, &e, 10); if (e == p) break; p = e; if (i < 65536 * 3) { cm_shorts[i] = (uint16_t)n; cm_bytes[i] = (uint8_t)n; } i++; }
    } else if (!strcmp(op, "recmap")) {
      /* the application changes screen->colourMap and calls rfbSetClientColourMap(cl, 0, 0) */
      char *p = line + off, *e; long i = 0, n; int ready; rfbBool ret;
      ready = (int)strtol(p, &p, 10);
      cm_is16 = (int)strtol(p, &p, 10); cm_count = (uint32_t)strtol(p, &p, 10);
      memset(cm_shorts, 0, 65536 * 3 * 2); memset(cm_bytes, 0, 65536 * 3);
      for (;;) { n = strtol(p, &e, 10); if (e == p) break; p = e; if (i < 65536 * 3) { cm_shorts[i] = (uint16_t)n; cm_bytes[i] = (uint8_t)n; } i++; }
      if (!setup_ok) { printf("recmap nosetup\n"); continue; }
      screen->colourMap.is16 = cm_is16; screen->colourMap.count = cm_count;
      if (cm_is16) screen->colourMap.data.shorts = cm_shorts; else screen->colourMap.data.bytes = cm_bytes;
      cl->readyForSetColourMapEntries = ready ? TRUE : FALSE;
      sraRgnMakeEmpty(cl->modifiedRegion);
      ret = rfbSetClientColourMap(cl, 0, 0);
      printf("recmap ret=%d", ret ? 1 : 0);
      { /* did it mark the whole screen as modified? */
        sraRegionPtr full = sraRgnCreateRect(0, 0, screen->width, screen->height);
        sraRgnSubtract(full, cl->modifiedRegion);
        printf(" mod=%s", sraRgnEmpty(cl->modifiedRegion) ? "empty" : (sraRgnEmpty(full) ? "full" : "partial"));
        sraRgnDestroy(full);
      }
      if (cl->translateFn == rfbTranslateNone || !cl->translateLookupTable) printf(" tbl=- tsum=-\n");
      else {
        size_t tn = malloc_usable_size(cl->translateLookupTable);
        printf(" tbl=%zu tsum=%016llx\n", tn, (unsigned long long)fnv64((unsigned char *)cl->translateLookupTable, tn));
      }
    } else if (!strcmp(op, "setup")) do_setup(0, 0, 0);
    else if (!strcmp(op, "setupmsg")) { int b = 0, t = 0; sscanf(line + off, "%d %d", &b, &t); do_setup(1, b, t); }
    else if (!strcmp(op, "newfb")) { int a = 8, b = 3, c = 4; sscanf(line + off, "%d %d %d", &a, &b, &c); do_newfb(a, b, c); }
    else if (!strcmp(op, "xlate") || !strcmp(op, "extent")) {
      int stride, w, h, n = 0; size_t outlen;
      int isx = !strcmp(op, "xlate");
      if (sscanf(line + off, "%d %d %d%n", &stride, &w, &h, &n) < 3) { printf("?? %s", line); continue; }
      if (!setup_ok) { printf("%s nosetup\n", op); continue; }
      outlen = (size_t)w * h * (cl->format.bitsPerPixel / 8);
      if (outlen + CANARY > OUT_CAP) { printf("%s toolarge\n", op); continue; }
      if (isx) {
        char *p = line + off + n; size_t L = 0; unsigned char *ip, *outp; long at = 0; int rc;
        static unsigned char *tmp; static size_t tmpcap;
        while (*p == ' ') p++;
        { size_t hl = strlen(p); if (hl / 2 + 1 > tmpcap) { tmpcap = hl / 2 + 1; tmp = realloc(tmp, tmpcap); } }
        while (hexv(p[0]) >= 0 && hexv(p[1]) >= 0) { tmp[L++] = (unsigned char)(hexv(p[0]) * 16 + hexv(p[1])); p += 2; }
        if (L > IN_CAP) { printf("xlate toolarge\n"); continue; }
        ip = in_guard - L; memcpy(ip, tmp, L);
        rc = run_xlate(ip, L, stride, w, h, outlen, &outp, &at);
        if (rc == 1) printf("xlate FAULT at=%ld\n", at);
        else if (rc == 2) printf("xlate WFAULT at=%ld sig=%d\n", at, fault_sig);
        else if (!canary_ok(outp)) printf("xlate CANARY\n");
        else { printf("xlate out="); puthex(outp, outlen); putchar('\n'); }
      } else {
        /* smallest input length without a read fault (faulting is monotone in the length) */
        long lo = 0, hi = (long)stride * (h > 0 ? h : 0) + (long)w * 4 + 64, at; unsigned char *outp; int rc;
        if (hi > (long)IN_CAP) { printf("extent toolarge\n"); continue; }
        memset(in_guard - hi, 0, (size_t)hi);
        rc = run_xlate(in_guard - hi, hi, stride, w, h, outlen, &outp, &at);
        if (rc != 0) { printf("extent unbounded rc=%d at=%ld\n", rc, at); continue; }
        while (lo < hi) {            /* invariant: length hi does not fault, every length < lo faults */
          long mid = lo + (hi - lo) / 2;
          rc = run_xlate(in_guard - mid, mid, stride, w, h, outlen, &outp, &at);
          if (rc == 0) hi = mid; else lo = mid + 1;
        }
        printf("extent hi=%ld\n", hi);
      }
    } else printf("?? %s", line);
    fflush(stdout);
  }
  free(line);
  return 0;
}
