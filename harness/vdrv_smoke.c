/* smoke test of vsess.h: handshake, Raw full update of a 4x3 32bpp screen */
#include "vsess.h"
int main(void) {
  vs_quiet();
  rfbScreenInfoPtr s = vs_screen(4, 3, 4);
  int peer; vs_buf b = {0};
  rfbClientPtr cl = vs_connect_raw(s, &peer);
  if (!cl) { printf("noclient\n"); return 1; }
  int rc = vs_handshake_none(s, peer, &b, 1);
  printf("handshake %d state=%d\n", rc, cl->state);
  ((uint32_t*)s->frameBuffer)[5] = 0x00112233;
  rfbMarkRectAsModified(s, 0, 0, 4, 3);
  vs_send_fur(peer, 0, 0, 0, 4, 3);
  vs_pump(s, 1, &peer, &b);
  printf("got %zu bytes: ", b.n - b.rd);
  for (size_t i = b.rd; i < b.n && i < b.rd + 40; i++) printf("%02x", b.p[i]);
  printf("\n");
  close(peer);
  vs_pump(s, 0, NULL, NULL);
  rfbScreenCleanup(s);
  return 0;
}
