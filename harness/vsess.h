/* vsess.h - shared helpers for harnesses that drive a real rfbScreenInfo through
 * socketpair connections (no listening sockets, application-driven event loop).
 * Header-only; include after <rfb/rfb.h>.  Everything is deterministic: no timers are
 * needed when screen->deferUpdateTime == 0. */
#ifndef VSESS_H
#define VSESS_H
#include <rfb/rfb.h>
#include <rfb/rfbregion.h>
#include <sys/socket.h>
#include <sys/types.h>
#include <unistd.h>
#include <fcntl.h>
#include <errno.h>
#include <poll.h>
#include <stdio.h>
#include <stdlib.h>
#include <string.h>
#include <stdint.h>

static void vs_quiet(void) { rfbLogEnable(0); }

/* a screen with its own framebuffer, no listeners, updates sent immediately */
static rfbScreenInfoPtr vs_screen(int w, int h, int bytesPerPixel) {
  int argc = 0;
  int bps = bytesPerPixel == 1 ? 2 : (bytesPerPixel == 2 ? 5 : 8);
  rfbScreenInfoPtr s = rfbGetScreen(&argc, NULL, w, h, bps, 3, bytesPerPixel);
  if (!s) return NULL;
  s->frameBuffer = (char *)calloc((size_t)w * h, bytesPerPixel);
  s->port = 0; s->ipv6port = 0; s->autoPort = FALSE;
  s->httpPort = 0; s->http6Port = 0; s->httpDir = NULL;
  s->deferUpdateTime = 0;
  s->desktopName = "vsess";
  rfbInitServer(s);
  return s;
}

/* connect a new client through a socketpair; *peer is the harness' end (non-blocking).
 * The RFB version line is sent first so that the WebSocket peek (100 ms) is skipped. */
static rfbClientPtr vs_connect_raw(rfbScreenInfoPtr s, int *peer) {
  int sv[2];
  if (socketpair(AF_UNIX, SOCK_STREAM, 0, sv) < 0) return NULL;
  fcntl(sv[1], F_SETFL, fcntl(sv[1], F_GETFL) | O_NONBLOCK);
  { int sz = 4 << 20; setsockopt(sv[0], SOL_SOCKET, SO_SNDBUF, &sz, sizeof sz);
    setsockopt(sv[1], SOL_SOCKET, SO_RCVBUF, &sz, sizeof sz);
    setsockopt(sv[1], SOL_SOCKET, SO_SNDBUF, &sz, sizeof sz);
    setsockopt(sv[0], SOL_SOCKET, SO_RCVBUF, &sz, sizeof sz); }
  *peer = sv[1];
  return rfbNewClient(s, sv[0]);
}

static int vs_write(int fd, const void *buf, size_t n) {
  const char *p = (const char *)buf; size_t off = 0;
  while (off < n) {
    ssize_t k = write(fd, p + off, n - off);
    if (k < 0) { if (errno == EAGAIN || errno == EINTR) { struct pollfd pf = {fd, POLLOUT, 0}; poll(&pf, 1, 100); continue; } return -1; }
    off += (size_t)k;
  }
  return 0;
}

/* read whatever is available right now (non-blocking); returns bytes read, 0 if none,
 * -1 on EOF/error with nothing read */
static ssize_t vs_read_avail(int fd, unsigned char *buf, size_t cap) {
  size_t off = 0;
  while (off < cap) {
    ssize_t k = read(fd, buf + off, cap - off);
    if (k > 0) { off += (size_t)k; continue; }
    if (k == 0) return off ? (ssize_t)off : -1;
    if (errno == EINTR) continue;
    if (errno == EAGAIN || errno == EWOULDBLOCK) break;
    return off ? (ssize_t)off : -1;
  }
  return (ssize_t)off;
}

/* growable byte buffer collecting everything a peer has received */
typedef struct { unsigned char *p; size_t n, cap, rd; } vs_buf;
static void vs_buf_add(vs_buf *b, const unsigned char *d, size_t n) {
  if (b->n + n > b->cap) { b->cap = (b->n + n) * 2 + 4096; b->p = (unsigned char *)realloc(b->p, b->cap); }
  memcpy(b->p + b->n, d, n); b->n += n;
}
static void vs_drain(int fd, vs_buf *b) {
  unsigned char tmp[65536]; ssize_t k;
  while ((k = vs_read_avail(fd, tmp, sizeof tmp)) > 0) vs_buf_add(b, tmp, (size_t)k);
}

/* run the event loop until nothing more happens; peers[] are drained into bufs[] between
 * rounds so the server never blocks on a full socket */
static void vs_pump(rfbScreenInfoPtr s, int npeers, int *peers, vs_buf *bufs) {
  int i, idle = 0, rounds = 0;
  while (idle < 2 && rounds < 10000) {
    rfbBool r = rfbProcessEvents(s, 0);
    size_t before = 0, after = 0;
    for (i = 0; i < npeers; i++) { before += bufs[i].n; if (peers[i] >= 0) vs_drain(peers[i], &bufs[i]); after += bufs[i].n; }
    if (!r && before == after) idle++; else idle = 0;
    rounds++;
  }
}

static void vs_put16(unsigned char *p, unsigned v) { p[0] = v >> 8; p[1] = v; }
static void vs_put32(unsigned char *p, uint32_t v) { p[0] = v >> 24; p[1] = v >> 16; p[2] = v >> 8; p[3] = v; }
static unsigned vs_get16(const unsigned char *p) { return (p[0] << 8) | p[1]; }
static uint32_t vs_get32(const unsigned char *p) { return ((uint32_t)p[0] << 24) | (p[1] << 16) | (p[2] << 8) | p[3]; }

/* complete a 3.8 handshake with security type None (screen without password) and
 * ClientInit(shared).  On return b holds the unread remainder (ServerInit consumed).
 * returns 0 on success */
static int vs_handshake_none(rfbScreenInfoPtr s, int peer, vs_buf *b, int shared) {
  unsigned char m[16];
  vs_write(peer, "RFB 003.008\n", 12);
  vs_pump(s, 1, &peer, b);
  if (b->n - b->rd < 12 + 2) return -1;
  b->rd += 12;                      /* server version */
  { unsigned nt = b->p[b->rd]; b->rd += 1 + nt; }
  m[0] = 1; vs_write(peer, m, 1);   /* choose None */
  vs_pump(s, 1, &peer, b);
  if (b->n - b->rd < 4 || vs_get32(b->p + b->rd) != 0) return -2;
  b->rd += 4;
  m[0] = shared ? 1 : 0; vs_write(peer, m, 1);
  vs_pump(s, 1, &peer, b);
  if (b->n - b->rd < 24) return -3;
  { uint32_t nl = vs_get32(b->p + b->rd + 20); b->rd += 24 + nl; }
  return 0;
}

static void vs_send_set_encodings(int peer, int n, const int32_t *encs) {
  unsigned char m[4 + 4 * 64]; int i;
  m[0] = 2; m[1] = 0; vs_put16(m + 2, n);
  for (i = 0; i < n; i++) vs_put32(m + 4 + 4 * i, (uint32_t)encs[i]);
  vs_write(peer, m, 4 + 4 * n);
}
static void vs_send_fur(int peer, int incr, int x, int y, int w, int h) {
  unsigned char m[10];
  m[0] = 3; m[1] = incr; vs_put16(m + 2, x); vs_put16(m + 4, y); vs_put16(m + 6, w); vs_put16(m + 8, h);
  vs_write(peer, m, 10);
}
static void vs_send_pixfmt(int peer, int bpp, int depth, int be, int tc, int rmax, int gmax, int bmax, int rs, int gs, int bs) {
  unsigned char m[20]; memset(m, 0, 20);
  m[0] = 0; m[4] = bpp; m[5] = depth; m[6] = be; m[7] = tc;
  vs_put16(m + 8, rmax); vs_put16(m + 10, gmax); vs_put16(m + 12, bmax); m[14] = rs; m[15] = gs; m[16] = bs;
  vs_write(peer, m, 20);
}
#endif
