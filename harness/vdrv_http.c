/* C20 implementation driver: runs a request script against the real httpd.c of the library
 * built from /repo (static, ASan) and prints the effect trace of every rfbHttpCheckFds call in
 * the format of ocaml/driver_C20.ml.
 *
 * No listener: screen->httpSock is one end of a socketpair, httpListenSock an idle pipe.
 * Link-time wraps:  read  (delivers the scripted segments to the HTTP socket: exact segmentation,
 * EOF, error, EAGAIN), write (records what httpd sends), fopen/open/opendir (which paths are
 * opened), close (httpCloseSock).  Every case runs in a forked child so that a crash of the
 * library is an observation ("crash <kind>") and static state cannot leak between cases.
 *
 * op "lreq <4|6> <hex>": the request arrives over a real loopback connection accepted by
 * rfbHttpCheckFds itself from the IPv4 resp. IPv6 HTTP listener (accept branches, rfbSetNonBlocking);
 * a call that does not return within 4 s is a stall ("crash timeout").
 *
 * argv[1] = sandbox root (httpDir = root ++ suffix of the cfg line). */
#define _GNU_SOURCE
#include <rfb/rfb.h>
#include <sys/socket.h>
#include <sys/types.h>
#include <sys/wait.h>
#include <sys/stat.h>
#include <dirent.h>
#include <unistd.h>
#include <fcntl.h>
#include <errno.h>
#include <stdio.h>
#include <stdlib.h>
#include <string.h>
#include <stdarg.h>
#include <signal.h>
#include <netinet/in.h>
#include <arpa/inet.h>
#include <stdint.h>

ssize_t __real_read(int fd, void *buf, size_t count);
ssize_t __real_write(int fd, const void *buf, size_t count);
FILE *__real_fopen(const char *path, const char *mode);
int __real_open(const char *path, int flags, ...);
DIR *__real_opendir(const char *path);
int __real_close(int fd);

static const char *root = "";
static int in_req = 0, http_fd = -1, peer_fd = -1, nreads = 0, real_io = 0;
/* send-side mode (op sreq): the peer does not read; select() for writability is scripted, time is virtual */
static int send_mode = 0; static char send_dec[64]; static int send_pos = 0;
static long vwait_total = 0, vwait_run = 0, vslice = 0, sent_total = 0, send_maxwait = 0; static int send_opened = 0;
int __real_select(int nfds, fd_set *r, fd_set *w, fd_set *e, struct timeval *tv);
/* scripted segments */
typedef struct { int kind; unsigned char *p; size_t n, off; } segm;   /* kind 0 data, 1 EOF, 2 ERR */
static segm segs[256]; static int nseg = 0, curseg = 0;
/* pending sent bytes */
static unsigned char *pend = NULL; static size_t npend = 0, cappend = 0;

static void put_hex(const unsigned char *p, size_t n) {
  size_t i; if (n == 0) { fputs("-", stdout); return; }
  for (i = 0; i < n; i++) printf("%02x", p[i]);
}
static void flush_send(void) {
  if (npend) { fputs("send ", stdout); put_hex(pend, npend); putchar('\n'); fflush(stdout); npend = 0; }
}
static void drain_peer(void) {
  unsigned char tmp[65536];
  if (peer_fd < 0) return;
  while (recv(peer_fd, tmp, sizeof tmp, MSG_DONTWAIT) > 0) { }
}

ssize_t __wrap_read(int fd, void *buf, size_t count) {
  if (in_req && fd == http_fd && !real_io) {
    nreads++;
    if (count == 0) return 0;                       /* as the kernel does */
    if (curseg >= nseg) { errno = EAGAIN; return -1; }
    if (segs[curseg].kind == 1) { curseg++; return 0; }
    if (segs[curseg].kind == 2) { curseg++; errno = ECONNRESET; return -1; }
    { segm *s = &segs[curseg]; size_t k = s->n - s->off; if (k > count) k = count;
      memcpy(buf, s->p + s->off, k); s->off += k; if (s->off >= s->n) curseg++;
      return (ssize_t)k; }
  }
  return __real_read(fd, buf, count);
}
/* the clock the library sees while a response is being sent to a scripted peer: real start + the virtual time the
   scripted select() calls have consumed (a per-response deadline in httpd must count that time) */
int __real_gettimeofday(struct timeval *tv, void *tz);
int __wrap_gettimeofday(struct timeval *tv, void *tz) {
  static struct timeval base; static int have = 0;
  int rc;
  if (!(in_req && send_mode)) return __real_gettimeofday(tv, tz);
  if (!have) { __real_gettimeofday(&base, NULL); have = 1; }
  rc = 0;
  if (tv) {
    long us = base.tv_usec + (vwait_total % 1000) * 1000;
    tv->tv_sec = base.tv_sec + vwait_total / 1000 + us / 1000000; tv->tv_usec = us % 1000000;
  }
  return rc;
}
int __wrap_select(int nfds, fd_set *r, fd_set *w, fd_set *e, struct timeval *tv) {
  if (in_req && send_mode && w && !r && http_fd >= 0 && FD_ISSET(http_fd, w) && tv) {
    int n = (int)strlen(send_dec); char d;
    long ms = tv->tv_sec * 1000 + tv->tv_usec / 1000;
    /* decisions: t = time-out, r = peer drained completely, d = peer reads 1 KiB; the last one repeats,
       a trailing '*' makes the whole string repeat */
    if (n > 1 && send_dec[n - 1] == '*') { d = send_dec[send_pos % (n - 1)]; send_pos++; }
    else { d = n ? send_dec[send_pos < n ? send_pos : n - 1] : 't'; if (send_pos < n) send_pos++; }
    vslice = ms;
    if (d == 'r') { drain_peer(); vwait_run = 0; return 1; }
    if (d == 'd') { unsigned char tmp[1024]; recv(peer_fd, tmp, sizeof tmp, MSG_DONTWAIT); vwait_run = 0;
      if (vwait_total > 50 * (send_maxwait > 0 ? send_maxwait : 1000) + 50 * ms) {
        printf("slowdrip\nslice %ld\nvwait %ld\n", vslice, vwait_total); fflush(stdout); _exit(0); }
      return 1; }
    /* time-out: virtual time advances by the full slice; as on Linux the timeval is left at zero */
    vwait_total += ms; vwait_run += ms;
    tv->tv_sec = 0; tv->tv_usec = 0; FD_ZERO(w);
    if (vwait_run > send_maxwait + 20 * (ms > 0 ? ms : 1000)) {
      printf("stall\nslice %ld\nvwait %ld\n", vslice, vwait_total); fflush(stdout); _exit(0);
    }
    return 0;
  }
  return __real_select(nfds, r, w, e, tv);
}
ssize_t __wrap_write(int fd, const void *buf, size_t count) {
  if (in_req && fd == http_fd && send_mode) {
    ssize_t r = __real_write(fd, buf, count);
    if (r > 0) sent_total += r;
    return r;
  }
  if (in_req && fd == http_fd) {
    ssize_t r;
    drain_peer();
    r = __real_write(fd, buf, count);
    if (r > 0) {
      if (npend + (size_t)r > cappend) { cappend = (npend + (size_t)r) * 2 + 4096; pend = realloc(pend, cappend); }
      memcpy(pend + npend, buf, (size_t)r); npend += (size_t)r;
    }
    return r;
  }
  return __real_write(fd, buf, count);
}
static void log_open(const char *path, int ok) {
  flush_send(); fputs("open ", stdout); put_hex((const unsigned char *)path, strlen(path)); printf(" %d\n", ok); fflush(stdout);
}
FILE *__wrap_fopen(const char *path, const char *mode) {
  FILE *f = __real_fopen(path, mode);
  if (in_req) log_open(path, f != NULL);
  if (in_req && send_mode && f) send_opened = 1;
  return f;
}
int __wrap_open(const char *path, int flags, ...) {
  int fd; mode_t m = 0;
  if (flags & O_CREAT) { va_list ap; va_start(ap, flags); m = va_arg(ap, mode_t); va_end(ap); }
  fd = __real_open(path, flags, m);
  if (in_req) log_open(path, fd >= 0);
  return fd;
}
DIR *__wrap_opendir(const char *path) {
  DIR *d = __real_opendir(path);
  if (in_req) log_open(path, d != NULL);
  return d;
}
int __wrap_close(int fd) {
  if (in_req && fd == http_fd) { flush_send(); puts("close"); fflush(stdout); }
  return __real_close(fd);
}

static enum rfbNewClientAction new_client(rfbClientPtr cl) {
  /* rfbNewClient has already written the RFB version line on the socket: not an httpd effect */
  if (npend >= 12 && memcmp(pend + npend - 12, "RFB ", 4) == 0) npend -= 12;
  flush_send(); puts("newclient"); fflush(stdout);
  return RFB_CLIENT_ACCEPT;
}

static size_t unhex(const char *h, unsigned char **out) {
  size_t n, i; unsigned char *p;
  if (!strcmp(h, "-")) { *out = (unsigned char *)calloc(1, 1); return 0; }
  n = strlen(h) / 2; p = (unsigned char *)malloc(n + 1);
  for (i = 0; i < n; i++) { unsigned v; sscanf(h + 2 * i, "%2x", &v); p[i] = (unsigned char)v; }
  p[n] = 0; *out = p; return n;
}

static void poison_stack(void);
static rfbScreenInfoPtr screen = NULL;
static int idle_pipe[2];

static void do_cfg(char *line) {
  char *tok[16]; int n = 0; char *sv = NULL, *t;
  for (t = strtok_r(line, " \n", &sv); t && n < 16; t = strtok_r(NULL, " \n", &sv)) tok[n++] = t;
  if (n < 9) { puts("?? cfg"); return; }
  if (!screen) {
    int argc = 0;
    screen = rfbGetScreen(&argc, NULL, 64, 64, 8, 3, 4);
    screen->frameBuffer = (char *)calloc(64 * 64, 4);
    screen->newClientHook = new_client;
    pipe(idle_pipe);
    screen->httpInitDone = TRUE;
    screen->httpListenSock = idle_pipe[0];
  }
  { unsigned char *d; size_t dn = unhex(tok[1], &d); char *full = (char *)malloc(strlen(root) + dn + 1);
    strcpy(full, root); memcpy(full + strlen(root), d, dn); full[strlen(root) + dn] = 0; screen->httpDir = full; }
  screen->httpEnableProxyConnect = atoi(tok[2]) ? TRUE : FALSE;
  screen->port = atoi(tok[3]);
  screen->width = atoi(tok[4]); screen->height = atoi(tok[5]);
  { unsigned char *d; unhex(tok[6], &d); screen->desktopName = (char *)d; }
  { unsigned char *d; size_t k = unhex(tok[7], &d); if (k > sizeof(screen->thisHost) - 1) k = sizeof(screen->thisHost) - 1;
    memcpy(screen->thisHost, d, k); screen->thisHost[k] = 0; }
  if (!strcmp(tok[8], "none")) unsetenv("USER"); else { unsigned char *d; unhex(tok[8], &d); setenv("USER", (char *)d, 1); }
  puts("cfg"); fflush(stdout);
}

static void do_req(char *line) {
  char *sv = NULL, *t; int i;
  if (!screen) { puts("?? req before cfg"); return; }
  nseg = 0; curseg = 0;
  strtok_r(line, " \n", &sv);
  for (t = strtok_r(NULL, " \n", &sv); t && nseg < 256; t = strtok_r(NULL, " \n", &sv)) {
    segm *s = &segs[nseg++]; s->off = 0; s->p = NULL; s->n = 0;
    if (!strcmp(t, "EOF")) s->kind = 1; else if (!strcmp(t, "ERR")) s->kind = 2;
    else { s->kind = 0; s->n = unhex(t, &s->p); }
  }
  if (screen->httpSock == RFB_INVALID_SOCKET) {
    int sv2[2], sz = 4 << 20;
    if (peer_fd >= 0) { __real_close(peer_fd); peer_fd = -1; }
    socketpair(AF_UNIX, SOCK_STREAM, 0, sv2);
    setsockopt(sv2[0], SOL_SOCKET, SO_SNDBUF, &sz, sizeof sz);
    setsockopt(sv2[1], SOL_SOCKET, SO_RCVBUF, &sz, sizeof sz);
    fcntl(sv2[0], F_SETFL, fcntl(sv2[0], F_GETFL) | O_NONBLOCK);
    fcntl(sv2[1], F_SETFL, fcntl(sv2[1], F_GETFL) | O_NONBLOCK);
    http_fd = sv2[0]; peer_fd = sv2[1];
    screen->httpSock = http_fd;
    __real_write(peer_fd, "RFB ", 4);          /* makes select() report the socket readable */
  }
  puts("req"); fflush(stdout);
  nreads = 0; npend = 0;
  poison_stack();
  in_req = 1;
  rfbHttpCheckFds(screen);
  in_req = 0;
  flush_send();
  drain_peer();
  printf("status %s\n", screen->httpSock == RFB_INVALID_SOCKET ? "done" : "again");
  printf("reads %d\n", nreads);
  fflush(stdout);
  for (i = 0; i < nseg; i++) free(segs[i].p);
}

/* fill the stack area that the next library call will use with a periodic pattern: makes reads of
 * never-written stack bytes (e.g. beyond the terminator of a freshly copied string) observable */
static unsigned char poison_pat[64]; static size_t poison_n = 0;
static void __attribute__((noinline)) poison_stack(void) {
  volatile unsigned char area[49152]; size_t i;
  if (!poison_n) return;
  for (i = 0; i < sizeof area; i++) area[i] = poison_pat[((size_t)(uintptr_t)&area[i]) % poison_n];
  __asm__ volatile("" : : "r"(area) : "memory");
}

/* sreq <maxwait-ms> <decisions t/r, last repeats> <hex>: a client that requests a large file and does not read
 * (small socket buffers); select() for writability follows the decisions, time is virtual */
extern int rfbMaxClientWait;
static void do_sreq(char *line) {
  char *sv = NULL, *mw, *dec, *h; int sv2[2], sz = 4096, oldwait = rfbMaxClientWait;
  strtok_r(line, " \n", &sv); mw = strtok_r(NULL, " \n", &sv); dec = strtok_r(NULL, " \n", &sv); h = strtok_r(NULL, " \n", &sv);
  puts("sreq"); fflush(stdout);
  if (!screen || !mw || !dec || !h) { puts("?? sreq"); return; }
  if (screen->httpSock != RFB_INVALID_SOCKET) { __real_close(screen->httpSock); screen->httpSock = RFB_INVALID_SOCKET; }
  if (peer_fd >= 0) { __real_close(peer_fd); peer_fd = -1; }
  socketpair(AF_UNIX, SOCK_STREAM, 0, sv2);
  setsockopt(sv2[0], SOL_SOCKET, SO_SNDBUF, &sz, sizeof sz);
  setsockopt(sv2[1], SOL_SOCKET, SO_RCVBUF, &sz, sizeof sz);
  fcntl(sv2[0], F_SETFL, fcntl(sv2[0], F_GETFL) | O_NONBLOCK);
  fcntl(sv2[1], F_SETFL, fcntl(sv2[1], F_GETFL) | O_NONBLOCK);
  http_fd = sv2[0]; peer_fd = sv2[1]; screen->httpSock = http_fd;
  __real_write(peer_fd, "RFB ", 4);
  nseg = 1; curseg = 0; segs[0].kind = 0; segs[0].off = 0; segs[0].n = unhex(h, &segs[0].p);
  send_maxwait = atol(mw); rfbMaxClientWait = (int)send_maxwait;
  strncpy(send_dec, dec, sizeof send_dec - 1); send_pos = 0;
  vwait_total = vwait_run = vslice = sent_total = 0; nreads = 0; npend = 0; send_opened = 0;
  send_mode = 1; in_req = 1;
  rfbHttpCheckFds(screen);
  in_req = 0; send_mode = 0;
  rfbMaxClientWait = oldwait;
  printf("status %s\n", screen->httpSock == RFB_INVALID_SOCKET ? "done" : "again");
  if (send_opened) printf("slice %ld\nvwait %ld\ncomplete %d\n", vslice, vwait_total, sent_total >= 70000 ? 1 : 0);
  fflush(stdout);
  drain_peer();
  free(segs[0].p);
}

/* the request comes in through a real listener: both accept branches of rfbHttpCheckFds */
static void do_lreq(char *line) {
  char *sv = NULL, *fam, *h; unsigned char *d; size_t n; int six, l4, l6 = -1, c; socklen_t sl;
  struct sockaddr_in a4; struct sockaddr_in6 a6;
  strtok_r(line, " \n", &sv); fam = strtok_r(NULL, " \n", &sv); h = strtok_r(NULL, " \n", &sv);
  puts("lreq"); fflush(stdout);
  if (!screen || !fam || !h) { puts("?? lreq"); return; }
  six = (fam[0] == '6');
  if (screen->httpSock != RFB_INVALID_SOCKET) { __real_close(screen->httpSock); screen->httpSock = RFB_INVALID_SOCKET; }
  memset(&a4, 0, sizeof a4); a4.sin_family = AF_INET; a4.sin_addr.s_addr = htonl(INADDR_LOOPBACK);
  l4 = socket(AF_INET, SOCK_STREAM, 0); bind(l4, (struct sockaddr *)&a4, sizeof a4); listen(l4, 4);
  sl = sizeof a4; getsockname(l4, (struct sockaddr *)&a4, &sl);
  memset(&a6, 0, sizeof a6); a6.sin6_family = AF_INET6; a6.sin6_addr = in6addr_loopback;
  l6 = socket(AF_INET6, SOCK_STREAM, 0);
  if (l6 >= 0 && (bind(l6, (struct sockaddr *)&a6, sizeof a6) < 0 || listen(l6, 4) < 0)) { __real_close(l6); l6 = -1; }
  if (l6 >= 0) { sl = sizeof a6; getsockname(l6, (struct sockaddr *)&a6, &sl); }
  if (six && l6 < 0) { puts("unsupported"); fflush(stdout); __real_close(l4); return; }
  screen->httpListenSock = l4; screen->httpListen6Sock = l6;
  c = socket(six ? AF_INET6 : AF_INET, SOCK_STREAM, 0);
  if (connect(c, six ? (struct sockaddr *)&a6 : (struct sockaddr *)&a4, six ? sizeof a6 : sizeof a4) < 0) { puts("?? connect"); return; }
  n = unhex(h, &d); __real_write(c, d, n);
  fcntl(c, F_SETFL, fcntl(c, F_GETFL) | O_NONBLOCK);
  usleep(20000);
  npend = 0; real_io = 1; http_fd = -1; peer_fd = c;
  alarm(4);
  in_req = 1;
  rfbHttpCheckFds(screen);                 /* accepts */
  http_fd = screen->httpSock;
  if (http_fd >= 0) {
    struct sockaddr_storage sa; socklen_t sal = sizeof sa; int fl = fcntl(http_fd, F_GETFL);
    getsockname(http_fd, (struct sockaddr *)&sa, &sal);
    printf("accepted v6=%d nonblock=%d\n", sa.ss_family == AF_INET6, (fl & O_NONBLOCK) ? 1 : 0);
  } else puts("accepted none");
  fflush(stdout);
  rfbHttpCheckFds(screen);                 /* reads and answers */
  in_req = 0;
  alarm(30);
  flush_send(); drain_peer();
  printf("status %s\n", screen->httpSock == RFB_INVALID_SOCKET ? "done" : "again");
  fflush(stdout);
  if (screen->httpSock != RFB_INVALID_SOCKET) { __real_close(screen->httpSock); screen->httpSock = RFB_INVALID_SOCKET; }
  __real_close(c); __real_close(l4); if (l6 >= 0) __real_close(l6);
  screen->httpListenSock = idle_pipe[0]; screen->httpListen6Sock = RFB_INVALID_SOCKET;
  real_io = 0; http_fd = -1; peer_fd = -1;
  free(d);
}

static void run_case(char **lines, int n) {
  int i;
  for (i = 0; i < n; i++) {
    if (!strncmp(lines[i], "cfg ", 4)) do_cfg(lines[i]);
    else if (!strncmp(lines[i], "lreq", 4)) do_lreq(lines[i]);
    else if (!strncmp(lines[i], "sreq", 4)) do_sreq(lines[i]);
    else if (!strncmp(lines[i], "req", 3)) do_req(lines[i]);
    else if (!strncmp(lines[i], "atoi ", 5)) { unsigned char *d; char *e = strchr(lines[i] + 5, '\n'); if (e) *e = 0; unhex(lines[i] + 5, &d); printf("atoi %d\n", atoi((char *)d)); fflush(stdout); }
    else if (!strncmp(lines[i], "strs ", 5)) { }
    else if (!strncmp(lines[i], "poison ", 7)) { unsigned char *d; char *e = strchr(lines[i] + 7, '\n'); if (e) *e = 0;
      poison_n = unhex(lines[i] + 7, &d); if (poison_n > sizeof poison_pat) poison_n = sizeof poison_pat; memcpy(poison_pat, d, poison_n); puts("poison"); fflush(stdout); }
    else { printf("?? %s", lines[i]); fflush(stdout); }
  }
}

static void finish_case(char **lines, int n) {
  int ep[2]; pid_t pid; int st; char rep[16384]; ssize_t k; size_t tot = 0;
  if (n == 0) return;
  fflush(stdout);
  pipe(ep);
  pid = fork();
  if (pid == 0) {
    __real_close(ep[0]); dup2(ep[1], 2);
    alarm(30);
    run_case(lines, n);
    fflush(stdout);
    _exit(0);
  }
  __real_close(ep[1]);
  fcntl(ep[0], F_SETFL, O_NONBLOCK);
  /* read the child's stderr while it runs so that it can never block on a full pipe */
  for (;;) {
    pid_t w = waitpid(pid, &st, WNOHANG);
    while ((k = __real_read(ep[0], rep + tot, sizeof rep - 1 - tot)) > 0) { tot += (size_t)k; if (tot >= sizeof rep - 1) tot = sizeof rep - 2; }
    if (w == pid) break;
    usleep(200);
  }
  rep[tot] = 0; __real_close(ep[0]);
  if (WIFSIGNALED(st)) {
    printf("crash %s\n", WTERMSIG(st) == SIGALRM ? "timeout" : "signal"); fprintf(stderr, "%s\n", rep);
  } else if (WEXITSTATUS(st) != 0) {
    char kind[64] = "exit"; char *a = strstr(rep, "AddressSanitizer: ");
    if (a) { sscanf(a + 18, "%63[A-Za-z0-9-]", kind); }
    printf("crash %s\n", kind); fprintf(stderr, "%s\n", rep);
  }
  else if (tot && getenv("VDRV_LOG")) fprintf(stderr, "%s\n", rep);
  fflush(stdout);
}

int main(int argc, char **argv) {
  char *line = NULL; size_t cap = 0; ssize_t len;
  char **lines = NULL; int n = 0, capl = 0, i;
  if (argc > 1) root = argv[1];
  rfbLogEnable(getenv("VDRV_LOG")!=NULL);
  signal(SIGPIPE, SIG_IGN);
  while ((len = getline(&line, &cap, stdin)) > 0) {
    if (!strncmp(line, "case ", 5)) {
      finish_case(lines, n);
      for (i = 0; i < n; i++) free(lines[i]);
      n = 0;
      fputs(line, stdout); if (line[len - 1] != '\n') putchar('\n');
      continue;
    }
    if (n == capl) { capl = capl * 2 + 16; lines = (char **)realloc(lines, capl * sizeof *lines); }
    lines[n++] = strdup(line);
  }
  finish_case(lines, n);
  return 0;
}
