/* C11 implementation driver: executes a region script through the public sra* API of the
 * library built from /repo and prints one canonical observation line per operation
 * (same format as ocaml/driver_C11.ml).  The span structure is observed through the four
 * iteration orders, the rectangle count and the emptiness test. */
#include <stdio.h>
#include <stdlib.h>
#include <string.h>
#include <rfb/rfb.h>
#include <rfb/rfbregion.h>
#include <signal.h>
#include <unistd.h>

/* watchdog: a region operation that does not return (a loop that stopped advancing) must end the
   run with a recognisable line instead of blocking the check */
static void on_alarm(int sig) { static const char m[] = "\nHANG watchdog: the operation did not return within 5 s\n"; (void)sig; fflush(stdout); if (write(1, m, sizeof m - 1) < 0) {} _exit(3); }

#define NREG 16
static sraRegionPtr regs[NREG];

static void iter_s(sraRegionPtr r, int rx, int ry) {
  sraRectangleIterator *i = sraRgnGetReverseIterator(r, rx, ry);
  sraRect rc; int first = 1;
  while (sraRgnIteratorNext(i, &rc)) {
    printf("%s%d,%d,%d,%d", first ? "" : ";", rc.x1, rc.y1, rc.x2, rc.y2);
    first = 0;
  }
  sraRgnReleaseIterator(i);
}

static void obs(const char *tag, sraRegionPtr r) {
  printf("%s e=%d n=%lu f=[", tag, sraRgnEmpty(r) ? 1 : 0, sraRgnCountRects(r));
  iter_s(r, 0, 0); printf("] x=["); iter_s(r, 1, 0); printf("] y=["); iter_s(r, 0, 1);
  printf("] xy=["); iter_s(r, 1, 1); printf("]\n");
}

static void set(int i, sraRegionPtr r) { if (regs[i]) sraRgnDestroy(regs[i]); regs[i] = r; }

int main(void) {
  char line[4096], op[32];
  int a[8], i;
  for (i = 0; i < NREG; i++) regs[i] = sraRgnCreate();
  while (fgets(line, sizeof line, stdin)) {
    int n = sscanf(line, "%31s %d %d %d %d %d %d %d %d", op, &a[0], &a[1], &a[2], &a[3], &a[4], &a[5], &a[6], &a[7]);
    char tag[128];
    if (n < 1) continue;
    if (!strcmp(op, "case")) { signal(SIGALRM, on_alarm); alarm(5); for (i = 0; i < NREG; i++) set(i, sraRgnCreate()); fputs(line, stdout); if (line[strlen(line)-1] != '\n') putchar('\n'); }
    else if (!strcmp(op, "new")) { set(a[0], sraRgnCreate()); obs("new", regs[a[0]]); }
    else if (!strcmp(op, "rect")) { set(a[0], sraRgnCreateRect(a[1], a[2], a[3], a[4])); obs("rect", regs[a[0]]); }
    else if (!strcmp(op, "dup")) { sraRegionPtr c = sraRgnCreateRgn(regs[a[1]]); set(a[0], c); obs("dup", regs[a[0]]); }
    else if (!strcmp(op, "or")) {
      if (a[0] == a[1]) { sraRegionPtr c = sraRgnCreateRgn(regs[a[1]]); sraRgnOr(regs[a[0]], c); sraRgnDestroy(c); }
      else sraRgnOr(regs[a[0]], regs[a[1]]);
      obs("or", regs[a[0]]); }
    else if (!strcmp(op, "and")) {
      rfbBool b;
      if (a[0] == a[1]) { sraRegionPtr c = sraRgnCreateRgn(regs[a[1]]); b = sraRgnAnd(regs[a[0]], c); sraRgnDestroy(c); }
      else b = sraRgnAnd(regs[a[0]], regs[a[1]]);
      snprintf(tag, sizeof tag, "and b=%d", b ? 1 : 0); obs(tag, regs[a[0]]); }
    else if (!strcmp(op, "sub")) {
      rfbBool b;
      if (a[0] == a[1]) { sraRegionPtr c = sraRgnCreateRgn(regs[a[1]]); b = sraRgnSubtract(regs[a[0]], c); sraRgnDestroy(c); }
      else b = sraRgnSubtract(regs[a[0]], regs[a[1]]);
      snprintf(tag, sizeof tag, "sub b=%d", b ? 1 : 0); obs(tag, regs[a[0]]); }
    else if (!strcmp(op, "offset")) { sraRgnOffset(regs[a[0]], a[1], a[2]); obs("offset", regs[a[0]]); }
    else if (!strcmp(op, "bbox")) { sraRegionPtr c = sraRgnBBox(regs[a[1]]); set(a[0], c); obs("bbox", regs[a[0]]); }
    else if (!strcmp(op, "pop")) {
      sraRect rc; rfbBool b = sraRgnPopRect(regs[a[0]], &rc, (unsigned long)a[1]);
      if (b) snprintf(tag, sizeof tag, "pop b=1 r=%d,%d,%d,%d", rc.x1, rc.y1, rc.x2, rc.y2);
      else snprintf(tag, sizeof tag, "pop b=0");
      obs(tag, regs[a[0]]); }
    else if (!strcmp(op, "clip")) {
      int x = a[0], y = a[1], w = a[2], h = a[3];
      rfbBool b = sraClipRect(&x, &y, &w, &h, a[4], a[5], a[6], a[7]);
      printf("clip b=%d %d %d %d %d\n", b ? 1 : 0, x, y, w, h); }
    else if (!strcmp(op, "clip2")) {
      int x = a[0], y = a[1], x2 = a[2], y2 = a[3];
      rfbBool b = sraClipRect2(&x, &y, &x2, &y2, a[4], a[5], a[6], a[7]);
      printf("clip2 b=%d %d %d %d %d\n", b ? 1 : 0, x, y, x2, y2); }
    else printf("?? %s", line);
  }
  for (i = 0; i < NREG; i++) sraRgnDestroy(regs[i]);
  return 0;
}
