/* C14 implementation driver: executes a sharing script against the real library (static ASan
 * build of /repo): one password-less screen per case, clients over socketpairs (inbound or
 * reverse), parked at chosen handshake phases, ClientInit with a chosen shared byte; one
 * observation line per operation in the format of ocaml/driver_C14.ml: the rfb state of every
 * client, -1 = closed / gone.  "probe" additionally asks every open RFB_NORMAL client's server
 * side for a framebuffer update and marks a client that is not served with '!'.
 * Every case runs in a forked child. */
#include "vsess.h"
#include <signal.h>
#include <sys/wait.h>

#define MAXC 32
typedef struct { rfbClientPtr cl; int peer; vs_buf buf; int gone; int dirty; } conn_t;
static conn_t conns[MAXC]; static int nconns;
static rfbScreenInfoPtr scr;

/* what the application's newClientHook answers for the next connection */
static enum rfbNewClientAction hook_answer = RFB_CLIENT_ACCEPT;
static enum rfbNewClientAction new_client_hook(rfbClientPtr cl) { return hook_answer; }

static void gone_hook(rfbClientPtr cl) { conn_t *c = (conn_t *)cl->clientData; if (c) { c->gone = 1; c->cl = NULL; } }

static void pump(void) {
  int peers[MAXC]; vs_buf bufs[MAXC]; int i;
  for (i = 0; i < nconns; i++) { peers[i] = conns[i].peer; bufs[i] = conns[i].buf; }
  vs_pump(scr, nconns, peers, bufs);
  for (i = 0; i < nconns; i++) { conns[i].buf = bufs[i]; if (conns[i].cl && !conns[i].gone && !conns[i].cl->onHold) conns[i].dirty = 0; }
}
static int state_of(conn_t *c) { return (c->gone || !c->cl || c->cl->sock < 0) ? -1 : (int)c->cl->state; }

static void obs(const char *marks) {
  int i; printf("o");
  for (i = 0; i < nconns; i++) printf(" %d%s", state_of(&conns[i]), (marks && marks[i]) ? "!" : "");
  printf("\n");
}

static void run_case(char **lines, int nl) {
  int li;
  scr = vs_screen(8, 8, 4);
  scr->newClientHook = new_client_hook;
  for (li = 0; li < nl; li++) {
    char op[32]; int a = 0, b = 0, c = 0;
    int n = sscanf(lines[li], "%31s %d %d %d", op, &a, &b, &c);
    if (n < 1) continue;
    if (!strcmp(op, "flags") && n == 4) {
      scr->alwaysShared = a ? TRUE : FALSE; scr->neverShared = b ? TRUE : FALSE; scr->dontDisconnect = c ? TRUE : FALSE;
      obs(NULL);
    } else if ((!strcmp(op, "conn") || !strcmp(op, "connhold") || !strcmp(op, "connrefuse")) && n >= 2 && nconns < MAXC) {
      int sv[2]; conn_t *k = &conns[nconns]; rfbClientPtr cl; char ver[16];
      int minor = (n >= 3) ? b : 8;
      hook_answer = !strcmp(op, "connhold") ? RFB_CLIENT_ON_HOLD : (!strcmp(op, "connrefuse") ? RFB_CLIENT_REFUSE : RFB_CLIENT_ACCEPT);
      memset(k, 0, sizeof *k);
      socketpair(AF_UNIX, SOCK_STREAM, 0, sv);
      fcntl(sv[1], F_SETFL, fcntl(sv[1], F_GETFL) | O_NONBLOCK);
      k->peer = sv[1]; nconns++;
      snprintf(ver, sizeof ver, "RFB 003.%03d\n", minor);
      vs_write(sv[1], ver, 12);
      cl = rfbNewClient(scr, sv[0]);
      if (!cl) k->gone = 1;
      else {
        /* rfbReverseConnection after rfbConnect: reverseConnection = TRUE; if (!cl->onHold) rfbStartOnHoldClient(cl) */
        if (a) { cl->reverseConnection = TRUE; if (!cl->onHold) rfbStartOnHoldClient(cl); }
        cl->clientData = k; cl->clientGoneHook = gone_hook; k->cl = cl;
      }
      pump(); obs(NULL);
    } else if (!strcmp(op, "release") && n == 2) {
      if (a >= 0 && a < nconns && conns[a].cl && !conns[a].gone && conns[a].cl->onHold) rfbStartOnHoldClient(conns[a].cl);
      pump(); obs(NULL);
    } else if ((!strcmp(op, "adv") || !strcmp(op, "advq")) && n == 2) {
      /* quiet variants (..q) leave the event pending: the event loop is not run */
      if (a >= 0 && a < nconns && conns[a].peer >= 0 && !conns[a].dirty && state_of(&conns[a]) == RFB_SECURITY_TYPE) {
        unsigned char t = rfbSecTypeNone; vs_write(conns[a].peer, &t, 1); conns[a].dirty = 1; }
      if (!strcmp(op, "adv")) pump();
      obs(NULL);
    } else if ((!strcmp(op, "init") || !strcmp(op, "initq")) && n == 3) {
      if (a >= 0 && a < nconns && conns[a].peer >= 0 && !conns[a].dirty && state_of(&conns[a]) == RFB_INITIALISATION) {
        unsigned char t = (unsigned char)b; vs_write(conns[a].peer, &t, 1); conns[a].dirty = 1; }
      if (!strcmp(op, "init")) pump();
      obs(NULL);
    } else if ((!strcmp(op, "drop") || !strcmp(op, "dropq")) && n == 2) {
      if (a >= 0 && a < nconns && conns[a].peer >= 0) { close(conns[a].peer); conns[a].peer = -1; }
      if (!strcmp(op, "drop")) pump();
      obs(NULL);
    } else if (!strcmp(op, "probe")) {
      char marks[MAXC]; size_t before[MAXC]; int i;
      memset(marks, 0, sizeof marks);
      pump();                              /* pending events first */
      rfbMarkRectAsModified(scr, 0, 0, 8, 8);
      for (i = 0; i < nconns; i++) {
        before[i] = conns[i].buf.n;
        if (state_of(&conns[i]) == RFB_NORMAL && conns[i].peer >= 0) vs_send_fur(conns[i].peer, 0, 0, 0, 8, 8);
      }
      pump();
      for (i = 0; i < nconns; i++)
        if (state_of(&conns[i]) == RFB_NORMAL && conns[i].buf.n < before[i] + 4 + 12 + 8 * 8 * 4) marks[i] = 1;
      obs(marks);
    } else printf("?? %s\n", op);
    fflush(stdout);
  }
}

int main(void) {
  static char *lines[4096]; int nl, have, eofin = 0; char line[1024], pending[1024]; pending[0] = 0;
  signal(SIGPIPE, SIG_IGN);
  vs_quiet();
  rfbMaxClientWait = 30;
  while (!eofin) {
    nl = 0; have = 0;
    if (pending[0]) { fputs(pending, stdout); have = 1; pending[0] = 0; }
    for (;;) {
      if (!fgets(line, sizeof line, stdin)) { eofin = 1; break; }
      if (line[0] && line[strlen(line) - 1] != '\n') strcat(line, "\n");
      if (!strncmp(line, "case ", 5)) { if (have) { strcpy(pending, line); break; } fputs(line, stdout); have = 1; continue; }
      if (have && nl < 4096) lines[nl++] = strdup(line);
    }
    if (have) {
      pid_t pid; int status = 0, i;
      fflush(stdout);
      pid = fork();
      if (pid == 0) { run_case(lines, nl); fflush(stdout); _exit(0); }
      waitpid(pid, &status, 0);
      if (!(WIFEXITED(status) && WEXITSTATUS(status) == 0))
        printf("x crashed status=%d\n", WIFSIGNALED(status) ? 1000 + WTERMSIG(status) : WEXITSTATUS(status));
      fflush(stdout);
      for (i = 0; i < nl; i++) free(lines[i]);
    }
  }
  return 0;
}
