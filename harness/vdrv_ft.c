/* C19 implementation driver: file-transfer messages against the real library (static ASan build
 * of /repo) in a sandbox directory; prints, per operation, the exact trace of permission-callback
 * invocations, file-system / zlib / strftime calls with arguments and results, bytes written to the
 * client, rfbCloseClient calls, and the resulting cl->fileTransfer state (format of
 * ocaml/driver_C19.ml; lines starting with "= " are the environment's answers, which the check
 * feeds to the model).
 *
 * Link-time wraps: open opendir readdir closedir mkdir rmdir unlink rename stat fstat fopen read
 * write close strftime compress uncompress rfbCloseClient.
 * Every case runs in a forked child on a freshly rebuilt sandbox  <root>/sb .
 *
 * ops:  cfg <permit> <cb: none | 0/1 digits, last digit repeats> <home: none | sb | hex>
 *       msg <hex of the complete client message> [eof]
 *       chunk            rfbSendFileTransferChunk(cl) as the event loop does
 *       gone             connection teardown; reports whether the transfer's descriptor is still open
 *       tight <enabled> <viewonly> <ftproot-suffix-hex> <list|mkdir> <path-hex>   (TightVNC extension)
 */
#define _GNU_SOURCE
#include "vsess.h"
#include <sys/stat.h>
#include <sys/wait.h>
#include <dirent.h>
#include <stdarg.h>
#include <signal.h>
#include <time.h>
#include <ftw.h>
#include <zlib.h>

ssize_t __real_read(int fd, void *buf, size_t count);
ssize_t __real_write(int fd, const void *buf, size_t count);
FILE *__real_fopen(const char *path, const char *mode);
int __real_open(const char *path, int flags, ...);
DIR *__real_opendir(const char *path);
struct dirent *__real_readdir(DIR *d);
int __real_closedir(DIR *d);
int __real_close(int fd);
int __real_mkdir(const char *p, mode_t m);
int __real_rmdir(const char *p);
int __real_unlink(const char *p);
int __real_rename(const char *a, const char *b);
int __real_stat(const char *p, struct stat *st);
int __real_fstat(int fd, struct stat *st);
size_t __real_strftime(char *s, size_t max, const char *fmt, const struct tm *tm);
int __real_compress(Bytef *dest, uLongf *destLen, const Bytef *source, uLong sourceLen);
int __real_uncompress(Bytef *dest, uLongf *destLen, const Bytef *source, uLong sourceLen);
void __real_rfbCloseClient(rfbClientPtr cl);

static char root[4096] = "", sb[4200] = "";
static int in_req = 0, cl_sock = -1, xfer_fd = -1, fstat_pending = 0;
static long long fstat_size = 0;
static DIR *cur_dir = NULL;
static rfbClientPtr the_cl = NULL;
static unsigned char *pend = NULL; static size_t npend = 0, cappend = 0;

static void put_hex(const unsigned char *p, size_t n) {
  size_t i; if (n == 0) { fputs("-", stdout); return; }
  for (i = 0; i < n; i++) printf("%02x", p[i]);
}
static void flush_tx(void) {
  if (npend) { fputs("tx ", stdout); put_hex(pend, npend); putchar('\n'); npend = 0; }
  fflush(stdout);
}
static void ev(const char *fmt, ...) {
  va_list ap; flush_tx(); va_start(ap, fmt); vprintf(fmt, ap); va_end(ap); fflush(stdout);
}
static void ev_path(const char *what, const char *p) {
  flush_tx(); printf("fs %s ", what); put_hex((const unsigned char *)p, strlen(p)); putchar('\n'); fflush(stdout);
}


/* ---- write guard: nothing the library does may create, change or remove anything outside the scratch root,
   whatever path a client (or a defect) makes it use.  The call is still printed (the oracle judges the path),
   but it is not executed: it fails with EACCES.  Relative paths are resolved against the current directory. ---- */
static char root_real[4200] = "";
static int inside_scratch(const char *path) {
  char tmp[8300], res[PATH_MAX + 1]; size_t n, rl;
  if (!path || !*path) return 1;                                   /* names no file: the real call fails by itself */
  if (!root_real[0]) { if (!root[0] || !realpath(root, root_real)) { root_real[0] = 0; return 0; } }
  n = strlen(path); if (n >= sizeof tmp - 2) return 0;
  memcpy(tmp, path, n + 1);
  /* resolve the longest existing ancestor of the parent directory (the last component may not exist yet,
     and must not be followed if it is a symbolic link: the operations guarded here act on the link itself or
     create the name) */
  for (;;) {
    char *sl = strrchr(tmp, '/');
    if (!sl) { strcpy(tmp, "."); }
    else if (sl == tmp) { tmp[1] = 0; }
    else *sl = 0;
    if (realpath(tmp, res)) break;
    if (!strcmp(tmp, ".") || !strcmp(tmp, "/")) return 0;
  }
  rl = strlen(root_real);
  return strncmp(res, root_real, rl) == 0 && (res[rl] == '/' || res[rl] == 0);
}
static int guard_blocks(const char *what, const char *path) {
  if (inside_scratch(path)) return 0;
  fprintf(stderr, "vdrv_ft: write guard: %s outside the scratch root not executed\n", what);
  errno = EACCES; return 1;
}

/* ---- wraps ---- */
ssize_t __wrap_write(int fd, const void *buf, size_t count) {
  ssize_t r;
  if (in_req && xfer_fd >= 0 && fd == xfer_fd) {
    flush_tx(); fputs("fs write ", stdout); put_hex(buf, count); putchar('\n');
    r = __real_write(fd, buf, count);
    printf("= rc %ld\n", (long)(r < 0 ? -1 : r)); fflush(stdout);
    return r;
  }
  r = __real_write(fd, buf, count);
  if (in_req && fd == cl_sock && r > 0) {
    if (npend + (size_t)r > cappend) { cappend = (npend + (size_t)r) * 2 + 4096; pend = realloc(pend, cappend); }
    memcpy(pend + npend, buf, (size_t)r); npend += (size_t)r;
  }
  return r;
}
ssize_t __wrap_read(int fd, void *buf, size_t count) {
  ssize_t r;
  if (in_req && xfer_fd >= 0 && fd == xfer_fd) {
    ev("fs read\n");
    r = __real_read(fd, buf, count);
    if (r < 0) printf("= fail\n"); else { fputs("= bytes ", stdout); put_hex(buf, (size_t)r); putchar('\n'); }
    fflush(stdout);
    return r;
  }
  return __real_read(fd, buf, count);
}
int __wrap_open(const char *path, int flags, ...) {
  int fd; mode_t m = 0;
  if (flags & O_CREAT) { va_list ap; va_start(ap, flags); m = va_arg(ap, mode_t); va_end(ap); }
  if (in_req) ev_path((flags & (O_WRONLY | O_RDWR)) ? "openw" : "openr", path);
  if ((flags & (O_WRONLY | O_RDWR | O_CREAT | O_TRUNC)) && guard_blocks("open for writing", path)) fd = -1; else
  fd = __real_open(path, flags, m);
  if (in_req) { printf("= %s\n", fd >= 0 ? "ok" : "fail"); fflush(stdout); xfer_fd = fd; }
  return fd;
}
FILE *__wrap_fopen(const char *path, const char *mode) {
  FILE *f;
  if (in_req) ev_path("fopen", path);
  if (mode && strpbrk(mode, "wa+") && guard_blocks("fopen for writing", path)) f = NULL; else
  f = __real_fopen(path, mode);
  if (in_req) { printf("= %s\n", f ? "ok" : "fail"); fflush(stdout); }
  return f;
}
DIR *__wrap_opendir(const char *path) {
  DIR *d;
  if (in_req) ev_path("opendir", path);
  d = __real_opendir(path);
  if (in_req) { printf("= %s\n", d ? "ok" : "fail"); fflush(stdout); cur_dir = d; }
  return d;
}
struct dirent *__wrap_readdir(DIR *d) {
  struct dirent *e;
  if (in_req && d == cur_dir) ev("fs readdir\n");
  e = __real_readdir(d);
  if (in_req && d == cur_dir) {
    if (e) { fputs("= name ", stdout); put_hex((unsigned char *)e->d_name, strlen(e->d_name)); putchar('\n'); }
    else puts("= end");
    fflush(stdout);
  }
  return e;
}
int __wrap_closedir(DIR *d) {
  if (in_req && d == cur_dir) { ev("fs closedir\n"); cur_dir = NULL; }
  return __real_closedir(d);
}
int __wrap_close(int fd) {
  if (in_req && fd >= 0 && fd == xfer_fd) { ev("fs closefd\n"); xfer_fd = -1; }
  return __real_close(fd);
}
static int rc_call(const char *what, const char *p, int rc) { (void)what; (void)p; printf("= rc %d\n", rc < 0 ? -1 : rc); fflush(stdout); return rc; }
int __wrap_mkdir(const char *p, mode_t m) { if (!in_req) return guard_blocks("mkdir", p) ? -1 : __real_mkdir(p, m); ev_path("mkdir", p); return rc_call("mkdir", p, guard_blocks("mkdir", p) ? -1 : __real_mkdir(p, m)); }
int __wrap_rmdir(const char *p) { if (!in_req) return guard_blocks("rmdir", p) ? -1 : __real_rmdir(p); ev_path("rmdir", p); return rc_call("rmdir", p, guard_blocks("rmdir", p) ? -1 : __real_rmdir(p)); }
int __wrap_unlink(const char *p) { if (!in_req) return guard_blocks("unlink", p) ? -1 : __real_unlink(p); ev_path("unlink", p); return rc_call("unlink", p, guard_blocks("unlink", p) ? -1 : __real_unlink(p)); }
int __wrap_rename(const char *a, const char *b) {
  if (!in_req) return (guard_blocks("rename", a) || guard_blocks("rename", b)) ? -1 : __real_rename(a, b);
  flush_tx(); fputs("fs rename ", stdout); put_hex((const unsigned char *)a, strlen(a)); putchar(' ');
  put_hex((const unsigned char *)b, strlen(b)); putchar('\n');
  return rc_call("rename", a, (guard_blocks("rename", a) || guard_blocks("rename", b)) ? -1 : __real_rename(a, b));
}
int __wrap_stat(const char *p, struct stat *st) {
  int rc;
  if (!in_req) return __real_stat(p, st);
  ev_path("stat", p);
  rc = __real_stat(p, st);
  if (rc != 0) puts("= fail");
  else printf("= stat %d %lld %lld %lld %lld\n", S_ISDIR(st->st_mode) ? 1 : 0, (long long)st->st_size,
              (long long)st->st_ctime, (long long)st->st_atime, (long long)st->st_mtime);
  fflush(stdout);
  return rc;
}
int __wrap_fstat(int fd, struct stat *st) {
  int rc;
  if (!(in_req && fd >= 0 && fd == xfer_fd)) return __real_fstat(fd, st);
  ev("fs fstat\n");
  rc = __real_fstat(fd, st);
  if (rc != 0) { puts("= fail"); fflush(stdout); } else { fstat_pending = 1; fstat_size = (long long)st->st_size; }
  return rc;
}
size_t __wrap_strftime(char *s, size_t max, const char *fmt, const struct tm *tm) {
  size_t r = __real_strftime(s, max, fmt, tm);
  if (in_req && fstat_pending) {
    fstat_pending = 0; printf("= fstat %lld ", fstat_size); put_hex((unsigned char *)s, strlen(s)); putchar('\n'); fflush(stdout);
  }
  return r;
}
int __wrap_compress(Bytef *dest, uLongf *destLen, const Bytef *source, uLong sourceLen) {
  int rc;
  if (!in_req) return __real_compress(dest, destLen, source, sourceLen);
  ev("fs compress\n");
  rc = __real_compress(dest, destLen, source, sourceLen);
  if (rc != Z_OK) puts("= fail"); else { fputs("= bytes ", stdout); put_hex(dest, *destLen); putchar('\n'); }
  fflush(stdout);
  return rc;
}
int __wrap_uncompress(Bytef *dest, uLongf *destLen, const Bytef *source, uLong sourceLen) {
  int rc;
  if (!in_req) return __real_uncompress(dest, destLen, source, sourceLen);
  ev("fs uncompress\n");
  rc = __real_uncompress(dest, destLen, source, sourceLen);
  if (rc != Z_OK) puts("= fail"); else { fputs("= bytes ", stdout); put_hex(dest, *destLen); putchar('\n'); }
  fflush(stdout);
  return rc;
}
int __real_creat(const char *p, mode_t m);
int __wrap_creat(const char *p, mode_t m) {
  int fd;
  if (in_req) ev_path("creat", p);
  if (guard_blocks("creat", p)) fd = -1; else
  fd = __real_creat(p, m);
  if (in_req) { printf("= %s\n", fd >= 0 ? "ok" : "fail"); fflush(stdout); }
  return fd;
}
struct utimbuf;
int __real_utime(const char *p, const struct utimbuf *t);
int __wrap_utime(const char *p, const struct utimbuf *t) {
  int rc;
  if (!in_req) return guard_blocks("utime", p) ? -1 : __real_utime(p, t);
  ev_path("utime", p);
  rc = guard_blocks("utime", p) ? -1 : __real_utime(p, t);
  printf("= rc %d\n", rc < 0 ? -1 : rc); fflush(stdout);
  return rc;
}
void __wrap_rfbCloseClient(rfbClientPtr cl) {
  if (in_req && cl == the_cl) ev("closeclient\n");
  __real_rfbCloseClient(cl);
}

/* ---- permission callback oracle ---- */
static char cb_digits[256]; static int cb_pos = 0;
static int file_transfer_permitted(rfbClientPtr cl) {
  int n = (int)strlen(cb_digits), a;
  a = cb_digits[cb_pos < n ? cb_pos : n - 1] == '1';
  if (cb_pos < n) cb_pos++;
  if (in_req) ev("ask %d\n", a);
  return a ? TRUE : FALSE;
}

/* ---- sandbox ---- */
static int rm_cb(const char *p, const struct stat *s, int t, struct FTW *f) { (void)s; (void)t; (void)f; return remove(p); }
static void put_file(const char *rel, const void *data, size_t n) {
  char p[5000]; int fd; snprintf(p, sizeof p, "%s/%s", sb, rel);
  fd = __real_open(p, O_CREAT | O_WRONLY | O_TRUNC, 0644); if (fd >= 0) { __real_write(fd, data, n); __real_close(fd); }
}
static void mk_dir(const char *rel) { char p[5000]; snprintf(p, sizeof p, "%s/%s", sb, rel); __real_mkdir(p, 0755); }
static void build_sandbox(void) {
  char big[8192 * 2 + 100], bin[20000], name[600]; size_t i;
  nftw(sb, rm_cb, 32, FTW_DEPTH | FTW_PHYS);
  __real_mkdir(root, 0755); __real_mkdir(sb, 0755);
  mk_dir("dir1"); mk_dir("dir1/sub"); mk_dir("empty"); mk_dir("out");
  put_file("dir1/a.txt", "hello world\n", 12);
  for (i = 0; i < sizeof bin; i++) bin[i] = (char)((i * 7 + 3) & 255);
  put_file("dir1/b.bin", bin, sizeof bin);
  put_file("dir1/sub/c.txt", "c\n", 2);
  put_file("dir1/.hidden", "h\n", 2);
  put_file("file.txt", "top\n", 4);
  for (i = 0; i < sizeof big; i++) big[i] = "abcdefghij\n"[i % 11];
  put_file("big.txt", big, sizeof big);
  put_file("exact.bin", big, 8192);
  put_file("exact1.bin", big, 8193);
  mk_dir("longnames");
  { char ln[300]; strcpy(ln, "longnames/"); memset(ln + 10, 'n', 255); ln[265] = 0; put_file(ln, "x", 1);
    strcpy(ln, "longnames/"); memset(ln + 10, 'm', 100); ln[110] = 0; put_file(ln, "y", 1); }
  put_file("com,ma.txt", "comma\n", 6);
  put_file("st*ar.txt", "star\n", 5);
  put_file("empty.txt", "", 0);
  /* long components for the MAX_PATH limit */
  memset(name, 'a', 100); name[100] = 0; mk_dir(name);
  { char n2[600]; snprintf(n2, sizeof n2, "%s/", name); memset(n2 + 101, 'b', 100); n2[201] = 0; mk_dir(n2);
    strcat(n2, "/f.txt"); put_file(n2, "long\n", 5); }
}

static size_t unhex(const char *h, unsigned char **out) {
  size_t n, i; unsigned char *p;
  if (!strcmp(h, "-")) { *out = (unsigned char *)calloc(1, 1); return 0; }
  n = strlen(h) / 2; p = (unsigned char *)malloc(n + 1);
  for (i = 0; i < n; i++) { unsigned v; sscanf(h + 2 * i, "%2x", &v); p[i] = (unsigned char)v; }
  p[n] = 0; *out = p; return n;
}

static rfbScreenInfoPtr screen = NULL;
static int peer = -1; static vs_buf pb = {0};

/* like vs_connect_raw, but the client's version line is already in the socket when rfbNewClient
 * peeks for a WebSocket handshake (saves its 100 ms wait per connection) */
static rfbClientPtr ft_connect(rfbScreenInfoPtr s, int *peerp) {
  int sv[2], sz = 4 << 20;
  if (socketpair(AF_UNIX, SOCK_STREAM, 0, sv) < 0) return NULL;
  fcntl(sv[1], F_SETFL, fcntl(sv[1], F_GETFL) | O_NONBLOCK);
  setsockopt(sv[0], SOL_SOCKET, SO_SNDBUF, &sz, sizeof sz); setsockopt(sv[1], SOL_SOCKET, SO_RCVBUF, &sz, sizeof sz);
  setsockopt(sv[1], SOL_SOCKET, SO_SNDBUF, &sz, sizeof sz); setsockopt(sv[0], SOL_SOCKET, SO_RCVBUF, &sz, sizeof sz);
  *peerp = sv[1];
  __real_write(sv[1], "RFB 003.008\n", 12);
  return rfbNewClient(s, sv[0]);
}
/* security type None + ClientInit, the version line having been sent by ft_connect */
static int ft_handshake_none(rfbScreenInfoPtr s, int p, vs_buf *b) {
  unsigned char m[4];
  vs_pump(s, 1, &p, b);
  if (b->n - b->rd < 12 + 2) return -1;
  b->rd += 12; { unsigned nt = b->p[b->rd]; b->rd += 1 + nt; }
  m[0] = 1; vs_write(p, m, 1); vs_pump(s, 1, &p, b);
  if (b->n - b->rd < 4 || vs_get32(b->p + b->rd) != 0) return -2;
  b->rd += 4;
  m[0] = 1; vs_write(p, m, 1); vs_pump(s, 1, &p, b);
  if (b->n - b->rd < 24) return -3;
  return 0;
}

static void state_line(void) {
  rfbClientPtr cl = the_cl;
  flush_tx();
  printf("st fd=%d snd=%d rcv=%d comp=%d sock=%d\n", cl->fileTransfer.fd != -1, cl->fileTransfer.sending ? 1 : 0,
         cl->fileTransfer.receiving ? 1 : 0, cl->fileTransfer.compressionEnabled ? 1 : 0, cl->sock != RFB_INVALID_SOCKET);
  fflush(stdout);
}

static void do_cfg(char *line) {
  char *tok[8]; int n = 0; char *sv = NULL, *t;
  for (t = strtok_r(line, " \n", &sv); t && n < 8; t = strtok_r(NULL, " \n", &sv)) tok[n++] = t;
  if (n < 4) { puts("?? cfg"); return; }
  if (!strcmp(tok[3], "none")) unsetenv("HOME");
  else if (!strcmp(tok[3], "sb")) setenv("HOME", sb, 1);
  else { unsigned char *d; unhex(tok[3], &d); setenv("HOME", (char *)d, 1); }
  if (!screen) {
    screen = vs_screen(16, 16, 4);
    the_cl = ft_connect(screen, &peer);
    if (!the_cl || ft_handshake_none(screen, peer, &pb) != 0) { puts("?? handshake"); fflush(stdout); _exit(3); }
    cl_sock = the_cl->sock;
  }
  screen->permitFileTransfer = atoi(tok[1]) ? TRUE : FALSE;
  if (!strcmp(tok[2], "none")) screen->getFileTransferPermission = NULL;
  else { strncpy(cb_digits, tok[2], sizeof cb_digits - 1); cb_pos = 0; screen->getFileTransferPermission = file_transfer_permitted; }
  puts("cfg"); fflush(stdout);
}

static void do_msg(char *line) {
  char *sv = NULL, *h, *e; unsigned char *d; size_t n;
  strtok_r(line, " \n", &sv); h = strtok_r(NULL, " \n", &sv); e = strtok_r(NULL, " \n", &sv);
  puts("msg"); fflush(stdout);
  if (!the_cl || the_cl->sock == RFB_INVALID_SOCKET) { puts("dead"); fflush(stdout); return; }
  n = unhex(h ? h : "-", &d);
  vs_write(peer, d, n);
  if (e && !strcmp(e, "eof")) shutdown(peer, SHUT_WR);
  npend = 0; fstat_pending = 0;
  in_req = 1;
  rfbProcessClientMessage(the_cl);
  in_req = 0;
  flush_tx();
  { long left = 0; unsigned char tmp[65536]; ssize_t k;
    if (the_cl->sock != RFB_INVALID_SOCKET)
      while ((k = recv(the_cl->sock, tmp, sizeof tmp, MSG_DONTWAIT)) > 0) left += k;
    printf("left %ld\n", left); }
  state_line();
  pb.n = 0; pb.rd = 0; vs_drain(peer, &pb);
  free(d);
}

static void do_chunk(void) {
  puts("chunk"); fflush(stdout);
  if (!the_cl) { puts("dead"); return; }
  npend = 0;
  in_req = 1;
  rfbSendFileTransferChunk(the_cl);
  in_req = 0;
  state_line();
  pb.n = 0; pb.rd = 0; vs_drain(peer, &pb);
}

static int count_regular_fds(void) {
  int fd, n = 0; struct stat st;
  for (fd = 3; fd < 1024; fd++) if (__real_fstat(fd, &st) == 0 && (S_ISREG(st.st_mode) || S_ISDIR(st.st_mode))) n++;
  return n;
}
static int base_fds = 0;

static void do_gone(void) {
  puts("gone"); fflush(stdout);
  if (!the_cl) { puts("dead"); return; }
  if (the_cl->sock != RFB_INVALID_SOCKET) rfbCloseClient(the_cl);
  rfbClientConnectionGone(the_cl);
  the_cl = NULL;
  /* regular files still open although the connection they were opened for is gone */
  printf("leak %d\n", count_regular_fds() - base_fds);
  fflush(stdout);
}

/* ---- getpwuid() of the server user: what the extension's InitFileTransfer sees ---- */
#include <pwd.h>
struct passwd *__real_getpwuid(uid_t uid);
static int pw_mode = 0;                      /* 0 real, 1 usable home = sandbox, 2 no entry, 3 unusable directory, 4 empty */
static struct passwd fake_pw; static char fake_home[4300];
struct passwd *__wrap_getpwuid(uid_t uid) {
  if (pw_mode == 0) return __real_getpwuid(uid);
  if (pw_mode == 2) return NULL;
  memset(&fake_pw, 0, sizeof fake_pw);
  fake_pw.pw_name = "verif"; fake_pw.pw_uid = uid;
  if (pw_mode == 1) snprintf(fake_home, sizeof fake_home, "%s", sb);
  else if (pw_mode == 3) snprintf(fake_home, sizeof fake_home, "/nonexistent-home-dir");
  else fake_home[0] = 0;
  fake_pw.pw_dir = fake_home;
  return &fake_pw;
}

/* ---- TightVNC 1.3 extension: Tight security type handshake, then one request ---- */
void rfbRegisterTightVNCFileTransferExtension(void);
void EnableFileTransfer(rfbBool enable);
int SetFtpRoot(char *path);
char *GetFtpRoot(void);
rfbBool IsFileTransferEnabled(void);
static rfbScreenInfoPtr targs_screen = NULL;

/* targs <ok|none|bad|empty> <arg-hex>...: the extension is registered, then rfbGetScreen processes the
 * command line (cargs.c -> rfbTightProcessArg -> InitFileTransfer / SetFtpRoot / EnableFileTransfer) */
static void do_targs(char *line) {
  char *tok[64]; int n = 0, k, argc; char *sv = NULL, *t; char *argv[64];
  for (t = strtok_r(line, " \n", &sv); t && n < 64; t = strtok_r(NULL, " \n", &sv)) tok[n++] = t;
  puts("targs"); fflush(stdout);
  if (n < 2) { puts("?? targs"); return; }
  pw_mode = !strcmp(tok[1], "ok") ? 1 : !strcmp(tok[1], "none") ? 2 : !strcmp(tok[1], "bad") ? 3 : 4;
  argv[0] = "vdrv_ft"; argc = 1;
  for (k = 2; k < n; k++) { unsigned char *a; unhex(tok[k], &a);
    /* "@" at the start stands for the sandbox path */
    if (a[0] == '@') { char *f = (char *)malloc(strlen(sb) + strlen((char *)a) + 1); sprintf(f, "%s%s", sb, (char *)a + 1); argv[argc++] = f; }
    else argv[argc++] = (char *)a; }
  argv[argc] = NULL;
  rfbRegisterTightVNCFileTransferExtension();
  targs_screen = rfbGetScreen(&argc, argv, 16, 16, 8, 3, 4);
  if (!targs_screen) { puts("?? noscreen"); return; }
  targs_screen->frameBuffer = (char *)calloc(16 * 16, 4);
  targs_screen->port = 0; targs_screen->ipv6port = 0; targs_screen->autoPort = FALSE;
  targs_screen->httpPort = 0; targs_screen->http6Port = 0; targs_screen->httpDir = NULL; targs_screen->deferUpdateTime = 0;
  rfbInitServer(targs_screen);
  { const char *r = GetFtpRoot(); size_t sl = strlen(sb);
    printf("tinit enabled=%d root=", IsFileTransferEnabled() ? 1 : 0);
    /* printed relative to the sandbox when it lies in it */
    if (!strncmp(r, sb, sl)) { putchar('@'); putchar(' '); put_hex((const unsigned char *)r + sl, strlen(r + sl)); }
    else { putchar('='); putchar(' '); put_hex((const unsigned char *)r, strlen(r)); }
    putchar('\n'); fflush(stdout); }
  pw_mode = 0;
}

static void do_tight(char *line) {
  char *tok[64]; int n = 0, k; char *sv = NULL, *t; unsigned char *suf;
  char ftproot[5000]; unsigned char m[16]; int tpeer; vs_buf b = {0}; rfbClientPtr cl; rfbScreenInfoPtr s;
  for (t = strtok_r(line, " \n", &sv); t && n < 64; t = strtok_r(NULL, " \n", &sv)) tok[n++] = t;
  puts("tight"); fflush(stdout);
  if (n < 6) { puts("?? tight"); return; }
  unhex(tok[3], &suf);
  snprintf(ftproot, sizeof ftproot, "%s%s", sb, (char *)suf);
  if (!strcmp(tok[1], "keep") && targs_screen) {
    s = targs_screen;                        /* state as left by the command line (targs) */
  } else {
    rfbRegisterTightVNCFileTransferExtension();
    s = vs_screen(16, 16, 4);
    SetFtpRoot(ftproot);
    EnableFileTransfer(atoi(tok[1]) ? TRUE : FALSE);
  }
  cl = ft_connect(s, &tpeer);
  if (!cl) { puts("?? noclient"); return; }
  the_cl = cl; cl_sock = cl->sock;
  vs_pump(s, 1, &tpeer, &b);
  if (b.n < 12 + 2) { puts("?? hs1"); return; }
  m[0] = 16; vs_write(tpeer, m, 1); vs_pump(s, 1, &tpeer, &b);          /* security type Tight */
  /* server: nTunnelTypes(4)=0, then nAuthTypes(4) [+16 bytes each] */
  { size_t off = 12 + 1 + b.p[12]; uint32_t nt, na;
    if (b.n < off + 8) { printf("?? hs2 %zu\n", b.n); return; }
    nt = vs_get32(b.p + off); off += 4 + 16 * nt; na = vs_get32(b.p + off); off += 4 + 16 * na;
    if (na > 0) { vs_put32(m, 1); vs_write(tpeer, m, 4); vs_pump(s, 1, &tpeer, &b); }     /* auth None */
  }
  m[0] = 1; vs_write(tpeer, m, 1); vs_pump(s, 1, &tpeer, &b);                     /* ClientInit */
  cl->viewOnly = atoi(tok[2]) ? TRUE : FALSE;
  printf("state %d\n", cl->state == RFB_NORMAL);
  /* the messages: <kind> <arg-hex> pairs */
  for (k = 4; k + 1 < n; k += 2) {
    unsigned char *arg; size_t alen = unhex(tok[k + 1], &arg); const char *kind = tok[k];
    printf("m %s\n", kind); fflush(stdout);
    if (cl->sock == RFB_INVALID_SOCKET) { puts("dead"); continue; }
    /* never write outside the sandbox, whatever root the library ended up with */
    if (strncmp(GetFtpRoot(), sb, strlen(sb)) != 0 && (!strcmp(kind, "mkdir") || !strcmp(kind, "upload"))) { puts("skipped"); continue; }
    memset(m, 0, sizeof m);
    if (!strcmp(kind, "list")) { m[0] = 130; vs_put16(m + 2, (unsigned)alen); vs_write(tpeer, m, 4); vs_write(tpeer, arg, alen); }
    else if (!strcmp(kind, "mkdir")) { m[0] = 136; vs_put16(m + 2, (unsigned)alen); vs_write(tpeer, m, 4); vs_write(tpeer, arg, alen); }
    else if (!strcmp(kind, "download")) { m[0] = 131; vs_put16(m + 2, (unsigned)alen); vs_write(tpeer, m, 8); vs_write(tpeer, arg, alen); }
    else if (!strcmp(kind, "upload")) { m[0] = 132; vs_put16(m + 2, (unsigned)alen); vs_write(tpeer, m, 8); vs_write(tpeer, arg, alen); }
    else if (!strcmp(kind, "uploaddata") || !strcmp(kind, "uploaddatac")) {
      m[0] = 133; m[1] = !strcmp(kind, "uploaddatac") ? 1 : 0; vs_put16(m + 2, (unsigned)alen); vs_put16(m + 4, (unsigned)alen);
      vs_write(tpeer, m, 6); vs_write(tpeer, arg, alen); }
    else if (!strcmp(kind, "uploaddone")) { m[0] = 133; vs_write(tpeer, m, 6); vs_put32(m, 1000000000u); vs_write(tpeer, m, 4); }
    else if (!strcmp(kind, "uploadfail")) { m[0] = 135; vs_put16(m + 2, (unsigned)alen); vs_write(tpeer, m, 4); vs_write(tpeer, arg, alen); }
    else if (!strcmp(kind, "uploadtrunc")) {      /* header announces 50 more name bytes than are sent, then the peer stops sending */
      m[0] = 132; vs_put16(m + 2, (unsigned)alen + 50); vs_write(tpeer, m, 8); vs_write(tpeer, arg, alen); shutdown(tpeer, SHUT_WR); }
    else if (!strcmp(kind, "teardown")) {         /* the server drops the connection: extension close hook */
      npend = 0; in_req = 1; rfbCloseClient(cl); in_req = 0; flush_tx(); free(arg); continue; }
    else if (!strcmp(kind, "dlcancel")) { m[0] = 134; vs_put16(m + 2, (unsigned)alen); vs_write(tpeer, m, 4); vs_write(tpeer, arg, alen); }
    else { puts("?? kind"); continue; }
    npend = 0; in_req = 1;
    rfbProcessClientMessage(cl);
    usleep(30000);                     /* a download runs in its own thread */
    in_req = 0;
    flush_tx();
    pb.n = 0; pb.rd = 0; vs_drain(tpeer, &pb);
    free(arg);
  }
  printf("sock %d\n", cl->sock != RFB_INVALID_SOCKET); fflush(stdout);
}

static void run_case(char **lines, int n) {
  int i;
  build_sandbox();
  chdir(sb);
  base_fds = count_regular_fds();
  for (i = 0; i < n; i++) {
    if (!strncmp(lines[i], "cfg ", 4)) do_cfg(lines[i]);
    else if (!strncmp(lines[i], "msg", 3)) do_msg(lines[i]);
    else if (!strncmp(lines[i], "chunk", 5)) do_chunk();
    else if (!strncmp(lines[i], "gone", 4)) do_gone();
    else if (!strncmp(lines[i], "tight ", 6)) do_tight(lines[i]);
    else if (!strncmp(lines[i], "targs ", 6)) do_targs(lines[i]);
    else { printf("?? %s", lines[i]); fflush(stdout); }
  }
}

static void finish_case(char **lines, int n) {
  int ep[2]; pid_t pid; int st; char rep[16384]; ssize_t k; size_t tot = 0;
  if (n == 0) return;
  fflush(stdout);
  pipe(ep);
  pid = fork();
  if (pid == 0) {
    __real_close(ep[0]); dup2(ep[1], 2);
    alarm(6);
    run_case(lines, n);
    fflush(stdout);
    _exit(0);
  }
  __real_close(ep[1]);
  fcntl(ep[0], F_SETFL, O_NONBLOCK);
  for (;;) {
    pid_t w = waitpid(pid, &st, WNOHANG);
    while ((k = __real_read(ep[0], rep + tot, sizeof rep - 1 - tot)) > 0) { tot += (size_t)k; if (tot >= sizeof rep - 1) tot = sizeof rep - 2; }
    if (w == pid) break;
    usleep(200);
  }
  rep[tot] = 0; __real_close(ep[0]);
  if (WIFSIGNALED(st)) { printf("crash %s\n", WTERMSIG(st) == SIGALRM ? "timeout" : "signal"); fprintf(stderr, "%s\n", rep); }
  else if (WEXITSTATUS(st) != 0) {
    char kind[64] = "exit"; char *a = strstr(rep, "AddressSanitizer: ");
    if (a) sscanf(a + 18, "%63[A-Za-z0-9-]", kind);
    printf("crash %s\n", kind); fprintf(stderr, "%s\n", rep);
  } else if (tot && getenv("VDRV_LOG")) fprintf(stderr, "%s\n", rep);
  fflush(stdout);
}

int main(int argc, char **argv) {
  char *line = NULL; size_t cap = 0; ssize_t len;
  char **lines = NULL; int n = 0, capl = 0, i;
  if (argc > 1) { strncpy(root, argv[1], sizeof root - 1); snprintf(sb, sizeof sb, "%s/sb", root); }
  rfbLogEnable(getenv("VDRV_LOG") != NULL);
  rfbMaxClientWait = 300;
  signal(SIGPIPE, SIG_IGN);
  while ((len = getline(&line, &cap, stdin)) > 0) {
    if (!strncmp(line, "case ", 5)) {
      finish_case(lines, n);
      for (i = 0; i < n; i++) free(lines[i]);
      n = 0;
      fputs(line, stdout); if (line[len - 1] != '\n') putchar('\n');
      continue;
    }
    if (n == capl) { capl = capl * 2 + 16; lines = (char **)realloc(lines, capl * sizeof *lines); }
    lines[n++] = strdup(line);
  }
  finish_case(lines, n);
  return 0;
}
