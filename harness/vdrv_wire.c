/* C03 implementation driver: runs a session script against a real rfbScreenInfo (static ASan
 * build of /repo) over socketpairs and prints, per operation,
 *   snap ...   one line per rfbSendFramebufferUpdate call of client A (taken in
 *              screen->displayHook, the first statement of that function): the client's
 *              regions, cursor bookkeeping and capability flags at entry
 *   caps ...   client A's capability flags after the operation
 *   out <hex>  every byte the server wrote to client A during the operation
 *   outB <hex> same for the helper client B (only used to move the pointer)
 * The harness never interprets server output (except to answer the VNC auth challenge). */
#include "vsess.h"
#include <rfb/rfbregion.h>
#include <pthread.h>
#include <sys/ioctl.h>

static pthread_mutex_t drain_mx = PTHREAD_MUTEX_INITIALIZER;
static rfbScreenInfoPtr S;
static rfbClientPtr A, B;
static int peerA = -1, peerB = -1;
static vs_buf bufA, bufB;
static int goneA = 1, goneB = 1;
static int ledval = 0;
static char *fb;
static int fbW, fbH, fbBypp;
static const char *PASSWORD = "s3cr3tpw";
static char *pwlist[2];

static void print_region(const char *tag, sraRegionPtr r) {
  sraRectangleIterator *i = sraRgnGetIterator(r);
  sraRect rc; int first = 1;
  printf(" %s=[", tag);
  while (sraRgnIteratorNext(i, &rc)) { printf("%s%d,%d,%d,%d", first ? "" : ";", rc.x1, rc.y1, rc.x2, rc.y2); first = 0; }
  sraRgnReleaseIterator(i);
  printf("]");
}

static void print_caps(const char *tag, rfbClientPtr cl) {
  printf("%s pref=%d copy=%d newfb=%d extds=%d cchg=%d rich=%d cpos=%d cshape=%d last=%d led=%d smsg=%d senc=%d sid=%d q=%d zl=%d cmoved=%d xclip=%d ready=%d fbpend=%d lastled=%d\n",
         tag, cl->preferredEncoding, !!cl->useCopyRect, !!cl->useNewFBSize, !!cl->useExtDesktopSize,
         !!cl->cursorWasChanged, !!cl->useRichCursorEncoding, !!cl->enableCursorPosUpdates,
         !!cl->enableCursorShapeUpdates, !!cl->enableLastRectEncoding, !!cl->enableKeyboardLedState,
         !!cl->enableSupportedMessages, !!cl->enableSupportedEncodings, !!cl->enableServerIdentity,
         cl->tightQualityLevel, cl->zlibCompressLevel, !!cl->cursorWasMoved, !!cl->enableExtendedClipboard,
         !!cl->readyForSetColourMapEntries, !!cl->newFBSizePending, cl->lastKeyboardLedState);
}

static void display_hook(rfbClientPtr cl) {
  rfbCursorPtr c = cl->screen->cursor;
  if (cl != A) return;
  printf("snap");
  print_region("mod", cl->modifiedRegion); print_region("req", cl->requestedRegion); print_region("copy", cl->copyRegion);
  printf(" dx=%d dy=%d clx=%d cly=%d scx=%d scy=%d", cl->copyDX, cl->copyDY, cl->cursorX, cl->cursorY,
         cl->screen->cursorX, cl->screen->cursorY);
  if (c) printf(" cur=%d,%d,%d,%d,%d", c->xhot, c->yhot, c->width, c->height,
                (c->width == 1 && c->height == 1 && c->mask && c->mask[0] == 0) ? 1 : 0);
  else printf(" cur=none");
  printf(" rdsc=%d dse=%d", cl->requestedDesktopSizeChange, cl->lastDesktopSizeChangeError);
  printf(" bpp=%d led=%d fbw=%d fbh=%d maxrects=%d cmw=%d cmh=%d nscr=%d scaled=%d\n", cl->format.bitsPerPixel, ledval,
         cl->scaledScreen->width, cl->scaledScreen->height, cl->screen->maxRectsPerUpdate,
         cl->correMaxWidth, cl->correMaxHeight, cl->screen->numberOfExtDesktopScreensHook(cl),
         cl->screen != cl->scaledScreen);
  print_caps("scaps", cl);
  fflush(stdout);     /* the update that follows may crash the process */
}

static void gone_hook(rfbClientPtr cl) { if (cl == A) { goneA = 1; A = NULL; } if (cl == B) { goneB = 1; B = NULL; } }
static enum rfbNewClientAction new_client(rfbClientPtr cl) { cl->clientGoneHook = gone_hook; return RFB_CLIENT_ACCEPT; }
static int led_hook(rfbScreenInfoPtr s) { return ledval; }
static rfbBool xvp_hook(rfbClientPtr cl, uint8_t v, uint8_t c) { return TRUE; }
static void utf8_hook(char *s, int n, rfbClientPtr cl) {}
/* the application's answer to SetDesktopSize: scripted result; the new size is installed afterwards */
static int sds_result, sds_called, sds_w, sds_h;
static int sds_hook(int w, int h, int n, rfbExtDesktopScreen *scr, rfbClientPtr cl) { sds_called = 1; sds_w = w; sds_h = h; return sds_result; }
static void install_fb(int w, int h) {
  char *nfb = calloc((size_t)w * h + 16, fbBypp), *old = fb;
  int bps = fbBypp == 1 ? 2 : (fbBypp == 2 ? 5 : 8);
  rfbNewFramebuffer(S, nfb, w, h, bps, 3, fbBypp);
  fb = nfb; fbW = w; fbH = h; free(old);
}

static void hex(const char *tag, vs_buf *b) {
  size_t i;
  pthread_mutex_lock(&drain_mx);
  printf("%s ", tag);
  if (b->n == b->rd) printf("-");
  for (i = b->rd; i < b->n; i++) printf("%02x", b->p[i]);
  printf("\n");
  b->rd = b->n;
  pthread_mutex_unlock(&drain_mx);
}

static int pending_input(rfbClientPtr cl, int gone) {
  int n = 0;
  if (!cl || gone || cl->sock < 0) return 0;
  if (ioctl(cl->sock, FIONREAD, &n) < 0) return 0;
  return n > 0;
}
/* A reader thread drains both peers all the time: the server writes synchronously inside
 * rfbProcessEvents and would otherwise block on a full socket (and drop the client after
 * rfbMaxClientWait) when one update is larger than the socket buffers. */
static volatile int drain_fd[2] = {-1, -1};
static void *drain_thread(void *arg) {
  static unsigned char tmp[1 << 16];
  for (;;) {
    struct pollfd pf[2]; int i, n = 0, map[2];
    for (i = 0; i < 2; i++) if (drain_fd[i] >= 0) { pf[n].fd = drain_fd[i]; pf[n].events = POLLIN; pf[n].revents = 0; map[n++] = i; }
    if (n == 0) { usleep(1000); continue; }
    if (poll(pf, n, 5) <= 0) continue;
    for (i = 0; i < n; i++) if (pf[i].revents & (POLLIN | POLLHUP)) {
      ssize_t k;
      pthread_mutex_lock(&drain_mx);
      if (drain_fd[map[i]] == pf[i].fd) {
        while ((k = read(pf[i].fd, tmp, sizeof tmp)) > 0) vs_buf_add(map[i] == 0 ? &bufA : &bufB, tmp, (size_t)k);
        if (k == 0) drain_fd[map[i]] = -1;      /* EOF: the server closed this connection */
      }
      pthread_mutex_unlock(&drain_mx);
    }
  }
  return NULL;
}
static size_t total_bytes(void) { size_t n; pthread_mutex_lock(&drain_mx); n = bufA.n + bufB.n; pthread_mutex_unlock(&drain_mx); return n; }
static int unread(int fd) { int n = 0; if (fd < 0) return 0; if (ioctl(fd, FIONREAD, &n) < 0) return 0; return n > 0; }
static int spin_seen;
/* run the event loop until the server has no unread input, the peers have nothing unread and
 * nothing new arrives for 3 rounds.  If rfbProcessEvents keeps reporting activity in such
 * rounds the server has an update pending that it cannot send; reported as "spin" (info). */
static void pump(void) {
  int idle = 0, rounds = 0, busy_idle = 0;
  while (idle < 3 && rounds < 400000) {
    size_t before = total_bytes();
    rfbBool r = rfbProcessEvents(S, 0);
    if (unread(drain_fd[0]) || unread(drain_fd[1])) usleep(200);
    if (before == total_bytes() && !unread(drain_fd[0]) && !unread(drain_fd[1]) &&
        !pending_input(A, goneA) && !pending_input(B, goneB)) { idle++; if (r) busy_idle++; }
    else { idle = 0; busy_idle = 0; }
    rounds++;
  }
  if (busy_idle >= 3) spin_seen = 1;
}

static void flush_op(void) {
  spin_seen = 0;
  pump();
  if (spin_seen) printf("spin 1\n");
  if (A && !goneA) print_caps("caps", A); else printf("caps gone\n");
  hex("out", &bufA);
  if (peerB >= 0 && bufB.n != bufB.rd) hex("outB", &bufB);
  fflush(stdout);
}

/* complete handshake on `peer`; all received bytes stay in *b (not consumed) */
static void do_handshake(int peer, vs_buf *b, int minor, int choice, const char *resp, int shared, int havepw) {
  char v[16]; unsigned char m[16]; size_t base = b->rd;
  snprintf(v, sizeof v, "RFB 003.%03d\n", minor);
  vs_write(peer, v, 12);
  pump();
  if (minor >= 7) { m[0] = (unsigned char)choice; vs_write(peer, m, 1); pump(); }
  if (havepw && (minor < 7 || choice == 2)) {
    /* the last 16 bytes received so far are the challenge */
    int have;
    pthread_mutex_lock(&drain_mx);
    have = b->n - base >= 16;
    if (have) memcpy(m, b->p + b->n - 16, 16);
    pthread_mutex_unlock(&drain_mx);
    if (have) {
      if (!strcmp(resp, "good")) rfbEncryptBytes(m, (char *)PASSWORD); else memset(m, 0x5a, 16);
      vs_write(peer, m, 16); pump();
    }
  }
  if (!(minor == 889 && !havepw)) { m[0] = shared ? 1 : 0; vs_write(peer, m, 1); pump(); }
}

static rfbCursorPtr make_cursor(int k) {
  /* 1: 8x8, 2: 1x1 transparent, 3: 17x9 with hot spot, 4: 1x0, 5: 0x1, 6: 0x0 (degenerate sizes), 7: 3x0 with hot spot */
  int w = k == 1 ? 8 : (k == 2 ? 1 : (k == 4 ? 1 : (k == 5 || k == 6 ? 0 : (k == 7 ? 3 : 17))));
  int h = k == 1 ? 8 : (k == 2 ? 1 : (k == 4 || k == 6 || k == 7 ? 0 : (k == 5 ? 1 : 9))), i;
  char *src = malloc(w * h + 1), *msk = malloc(w * h + 1);
  for (i = 0; i < w * h; i++) { src[i] = (i % 3) ? 'x' : ' '; msk[i] = (k == 2) ? ' ' : 'x'; }
  src[w * h] = msk[w * h] = 0;
  { rfbCursorPtr c = rfbMakeXCursor(w, h, src, msk); free(src); free(msk); c->xhot = k == 3 ? 2 : (k == 7 ? 1 : 0); c->yhot = k == 3 ? 3 : 0; c->cleanup = FALSE; return c; }
}

static unsigned lcg(unsigned *s) { *s = *s * 1664525u + 1013904223u; return *s >> 8; }

static int kv(const char *line, const char *key, int dflt) {
  char pat[64]; const char *p;
  snprintf(pat, sizeof pat, " %s=", key);
  p = strstr(line, pat);
  return p ? atoi(p + strlen(pat)) : dflt;
}

int main(void) {
  static char line[1 << 20];
  char op[64];
  pthread_t th;
  vs_quiet();
  setvbuf(stdout, NULL, _IOFBF, 1 << 20);
  pthread_create(&th, NULL, drain_thread, NULL);
  while (fgets(line, sizeof line, stdin)) {
    long a[12]; int n, i;
    memset(a, 0, sizeof a);
    n = sscanf(line, "%63s %ld %ld %ld %ld %ld %ld %ld %ld %ld %ld %ld", op, &a[0], &a[1], &a[2], &a[3], &a[4], &a[5], &a[6], &a[7], &a[8], &a[9], &a[10]);
    if (n < 1) continue;
    if (!strcmp(op, "case")) {
      pthread_mutex_lock(&drain_mx); drain_fd[0] = drain_fd[1] = -1; pthread_mutex_unlock(&drain_mx);
      if (peerA >= 0) { close(peerA); peerA = -1; }
      if (peerB >= 0) { close(peerB); peerB = -1; }
      A = B = NULL;   /* display_hook ignores the teardown rounds */
      if (S) { for (i = 0; i < 4; i++) rfbProcessEvents(S, 0); rfbScreenCleanup(S); S = NULL; free(fb); fb = NULL; }
      A = B = NULL; goneA = goneB = 1; pthread_mutex_lock(&drain_mx); bufA.n = bufA.rd = bufB.n = bufB.rd = 0; pthread_mutex_unlock(&drain_mx); ledval = 0;
      fputs(line, stdout); if (line[strlen(line) - 1] != '\n') putchar('\n');
      fflush(stdout);
      continue;
    }
    if (!strcmp(op, "screen")) {
      int argc = 0; char *nm; int bypp = (int)a[2];
      int bps = bypp == 1 ? 2 : (bypp == 2 ? 5 : 8);
      fbW = (int)a[0]; fbH = (int)a[1]; fbBypp = bypp;
      S = rfbGetScreen(&argc, NULL, fbW, fbH, bps, 3, bypp);
      fb = calloc((size_t)fbW * fbH + 16, bypp);
      S->frameBuffer = fb;
      S->port = 0; S->ipv6port = 0; S->autoPort = FALSE; S->httpPort = 0; S->http6Port = 0; S->httpDir = NULL;
      S->deferUpdateTime = 0;
      S->maxClientWait = 150;     /* ms: incomplete client messages stall rfbReadExact this long */
      nm = malloc(300); { int L = kv(line, "namelen", 5); for (i = 0; i < L && i < 299; i++) nm[i] = 'a' + (i % 26); nm[i] = 0; }
      S->desktopName = nm;
      if (kv(line, "pw", 0)) { pwlist[0] = (char *)PASSWORD; pwlist[1] = NULL; S->authPasswdData = pwlist; S->passwordCheck = rfbCheckPasswordByList; }
      if (kv(line, "maxrects", -1) >= 0) S->maxRectsPerUpdate = kv(line, "maxrects", 50);
      if (kv(line, "dontconv", 0)) S->dontConvertRichCursorToXCursor = TRUE;
      if (kv(line, "xvp", 0)) S->xvpHook = xvp_hook;
      if (kv(line, "utf8", 0)) S->setXCutTextUTF8 = utf8_hook;
      if (kv(line, "ledhook", 0)) S->getKeyboardLedStateHook = led_hook;
      S->setDesktopSizeHook = sds_hook;
      S->displayHook = display_hook;
      S->newClientHook = new_client;
      rfbInitServer(S);
      printf("screen w=%d h=%d bpp=%d depth=%d be=%d tc=%d rmax=%d gmax=%d bmax=%d rs=%d gs=%d bs=%d\n", S->width, S->height,
             S->serverFormat.bitsPerPixel, S->serverFormat.depth, (unsigned char)S->serverFormat.bigEndian, (unsigned char)S->serverFormat.trueColour,
             S->serverFormat.redMax, S->serverFormat.greenMax, S->serverFormat.blueMax,
             S->serverFormat.redShift, S->serverFormat.greenShift, S->serverFormat.blueShift);
      fflush(stdout);
      continue;
    }
    if (!S) { printf("?? no screen\n"); continue; }
    if (!strcmp(op, "connect")) {           /* connect MINOR CHOICE SHARED resp=0/1 */
      int good = kv(line, "good", 1);
      A = vs_connect_raw(S, &peerA); goneA = A ? 0 : 1; drain_fd[0] = peerA;
      if (A) do_handshake(peerA, &bufA, (int)a[0], (int)a[1], good ? "good" : "bad", (int)a[2], S->authPasswdData != NULL);
      pump();
      printf("state %d\n", (A && !goneA) ? (int)A->state : -1);
      hex("hs", &bufA);
      fflush(stdout);
      continue;
    }
    if (!strcmp(op, "helper")) {
      B = vs_connect_raw(S, &peerB); goneB = B ? 0 : 1; drain_fd[1] = peerB;
      if (B) do_handshake(peerB, &bufB, 8, S->authPasswdData ? 2 : 1, "good", 1, S->authPasswdData != NULL);
      pump();
      printf("stateB %d\n", (B && !goneB) ? (int)B->state : -1);
      hex("hsB", &bufB);
      fflush(stdout);
      continue;
    }
    if (!A || goneA) {
      /* client A is gone: operations are still accepted (they act on the screen only) */
    }
    if (!strcmp(op, "setenc")) {
      int32_t encs[256]; int k = 0; char *p = line + 6, *e;
      while (k < 256) { long long v = strtoll(p, &e, 10); if (e == p) break; encs[k++] = (int32_t)(uint32_t)v; p = e; }
      { unsigned char *m = malloc(4 + 4 * k); m[0] = 2; m[1] = 0; vs_put16(m + 2, k);
        for (i = 0; i < k; i++) vs_put32(m + 4 + 4 * i, (uint32_t)encs[i]);
        if (peerA >= 0) vs_write(peerA, m, 4 + 4 * k); free(m); }
    } else if (!strcmp(op, "pixfmt")) {
      if (peerA >= 0) vs_send_pixfmt(peerA, a[0], a[1], a[2], a[3], a[4], a[5], a[6], a[7], a[8], a[9]);
    } else if (!strcmp(op, "fur")) {
      if (peerA >= 0) vs_send_fur(peerA, a[0], a[1], a[2], a[3], a[4]);
    } else if (!strcmp(op, "fill")) {       /* fill x y w h seed mode: pixel content + mark modified */
      unsigned s = (unsigned)a[4] * 2654435761u + 12345; int x, y, b;
      for (y = a[1]; y < a[1] + a[3] && y < fbH; y++) for (x = a[0]; x < a[0] + a[2] && x < fbW; x++) {
        unsigned v = a[5] == 0 ? (unsigned)a[4] * 0x01010101u           /* solid */
                   : a[5] == 1 ? ((x / 4 + y / 4) & 1 ? 0x00ffffffu : (unsigned)a[4] * 0x010101u)   /* two colours, blocks */
                   : a[5] == 2 ? (lcg(&s) & 3) * 0x00554433u             /* four colours, noise */
                   : a[5] == 4 ? (y < a[1] + (3 * a[3]) / 4 ? (unsigned)a[4] * 0x01010101u : lcg(&s))   /* solid top 3/4, noise below */
                   : a[5] == 5 ? (x < a[0] + a[2] / 2 ? (unsigned)a[4] * 0x01010101u : lcg(&s))         /* solid left half, noise right */
                   : lcg(&s);                                            /* noise */
        for (b = 0; b < fbBypp; b++) fb[((size_t)y * fbW + x) * fbBypp + b] = (char)(v >> (8 * b));
      }
      rfbMarkRectAsModified(S, a[0], a[1], a[0] + a[2], a[1] + a[3]);
    } else if (!strcmp(op, "mark")) {
      rfbMarkRectAsModified(S, a[0], a[1], a[0] + a[2], a[1] + a[3]);
    } else if (!strcmp(op, "copy")) {
      rfbScheduleCopyRect(S, a[0], a[1], a[0] + a[2], a[1] + a[3], a[4], a[5]);
    } else if (!strcmp(op, "ptr")) {
      unsigned char m[6]; int ox = S->cursorX, oy = S->cursorY; m[0] = 5; m[1] = 0; vs_put16(m + 2, a[0]); vs_put16(m + 4, a[1]);
      if (peerB >= 0) vs_write(peerB, m, 6);
      /* one event-loop round delivers the event; report whether the pointer really moved */
      rfbProcessEvents(S, 0);
      printf("ptrmoved %d\n", (ox != S->cursorX || oy != S->cursorY) ? 1 : 0);
    } else if (!strcmp(op, "setcursor")) {
      rfbSetCursor(S, make_cursor((int)a[0]));
    } else if (!strcmp(op, "led")) {
      ledval = (int)a[0];
    } else if (!strcmp(op, "bell")) {
      rfbSendBell(S);
    } else if (!strcmp(op, "cuttext")) {
      char *t = malloc(a[0] + 1); memset(t, 'c', a[0]); rfbSendServerCutText(S, t, (int)a[0]); free(t);
    } else if (!strcmp(op, "cuttextutf8")) {
      char *t = malloc(a[0] + 1); memset(t, 'u', a[0]); t[a[0]] = 0; rfbSendServerCutTextUTF8(S, t, (int)a[0], t, (int)a[0]); free(t);
    } else if (!strcmp(op, "newfb")) {
      install_fb((int)a[0], (int)a[1]);
    } else if (!strcmp(op, "helperenc")) {     /* SetEncodings sent by the helper client B */
      int32_t encs[256]; int k = 0; char *p = line + 9, *e;
      while (k < 256) { long long v = strtoll(p, &e, 10); if (e == p) break; encs[k++] = (int32_t)(uint32_t)v; p = e; }
      { unsigned char *m = malloc(4 + 4 * k); m[0] = 2; m[1] = 0; vs_put16(m + 2, k);
        for (i = 0; i < k; i++) vs_put32(m + 4 + 4 * i, (uint32_t)encs[i]);
        if (peerB >= 0) vs_write(peerB, m, 4 + 4 * k); free(m); }
    } else if (!strcmp(op, "sds")) {           /* sds WHO(0=A,1=B) W H OK: SetDesktopSize; the application accepts (and then
                                                  installs the new framebuffer) or refuses */
      unsigned char m[24]; int fd = a[0] ? peerB : peerA;
      memset(m, 0, sizeof m); m[0] = 251; vs_put16(m + 2, a[1]); vs_put16(m + 4, a[2]); m[6] = 1;
      vs_put32(m + 8, 1); vs_put16(m + 16, a[1]); vs_put16(m + 18, a[2]);
      sds_result = a[3] ? rfbExtDesktopSize_Success : rfbExtDesktopSize_ResizeProhibited; sds_called = 0;
      if (fd >= 0) vs_write(fd, m, 24);
      pump();
      printf("sdscalled %d\n", sds_called);
      if (sds_called && a[3]) install_fb(sds_w, sds_h);
    } else if (!strcmp(op, "setscale")) {
      unsigned char m[4]; m[0] = 8; m[1] = (unsigned char)a[0]; m[2] = m[3] = 0;
      if (peerA >= 0) vs_write(peerA, m, 4);
    } else if (!strcmp(op, "reqgrid")) {     /* reqgrid W H step: incremental 1x1 requests on a grid */
      int x, y; unsigned char *m = malloc(10 * 4096); int cnt = 0;
      for (y = 0; y < a[1]; y += a[2]) for (x = 0; x < a[0]; x += a[2]) {
        unsigned char *q = m + 10 * cnt; q[0] = 3; q[1] = 1; vs_put16(q + 2, x); vs_put16(q + 4, y); vs_put16(q + 6, 1); vs_put16(q + 8, 1);
        if (++cnt == 4096) { if (peerA >= 0) vs_write(peerA, m, 10 * cnt); cnt = 0; pump(); }
      }
      if (cnt && peerA >= 0) vs_write(peerA, m, 10 * cnt);
      free(m);
    } else if (!strcmp(op, "modgrid")) {     /* modgrid NX NY: NX*NY one-pixel rectangles at even coordinates marked modified */
      sraRegionPtr r = sraRgnCreateRect(0, 0, 1, 1), row; int k;
      for (k = 1; k < a[0]; k *= 2) { sraRegionPtr c = sraRgnCreateRgn(r); sraRgnOffset(c, 2 * k, 0); sraRgnOr(r, c); sraRgnDestroy(c); }
      { sraRegionPtr clip = sraRgnCreateRect(0, 0, 2 * a[0] - 1, 1); sraRgnAnd(r, clip); sraRgnDestroy(clip); }
      row = r;
      for (k = 1; k < a[1]; k *= 2) { sraRegionPtr c = sraRgnCreateRgn(row); sraRgnOffset(c, 0, 2 * k); sraRgnOr(row, c); sraRgnDestroy(c); }
      { sraRegionPtr clip = sraRgnCreateRect(0, 0, 2 * a[0] - 1, 2 * a[1] - 1); sraRgnAnd(row, clip); sraRgnDestroy(clip); }
      if (a[2] > 0) {   /* drop the last a[2] pixels of the last row */
        sraRegionPtr cut = sraRgnCreateRect(2 * (a[0] - a[2]), 2 * (a[1] - 1), 2 * a[0], 2 * a[1]); sraRgnSubtract(row, cut); sraRgnDestroy(cut); }
      rfbMarkRegionAsModified(S, row);
      printf("modgrid rects=%lu\n", sraRgnCountRects(row));
      sraRgnDestroy(row);
    } else if (!strcmp(op, "copygrid")) {    /* copygrid NX NY DX DY: the application schedules a copy of NX*NY one-pixel
                                                rectangles at even coordinates (rfbScheduleCopyRegion with a fragmented region) */
      sraRegionPtr r = sraRgnCreateRect(0, 0, 1, 1); int k;
      for (k = 1; k < a[0]; k *= 2) { sraRegionPtr c = sraRgnCreateRgn(r); sraRgnOffset(c, 2 * k, 0); sraRgnOr(r, c); sraRgnDestroy(c); }
      { sraRegionPtr clip = sraRgnCreateRect(0, 0, 2 * a[0] - 1, 1); sraRgnAnd(r, clip); sraRgnDestroy(clip); }
      for (k = 1; k < a[1]; k *= 2) { sraRegionPtr c = sraRgnCreateRgn(r); sraRgnOffset(c, 0, 2 * k); sraRgnOr(r, c); sraRgnDestroy(c); }
      { sraRegionPtr clip = sraRgnCreateRect(0, 0, 2 * a[0] - 1, 2 * a[1] - 1); sraRgnAnd(r, clip); sraRgnDestroy(clip); }
      printf("copygrid rects=%lu\n", sraRgnCountRects(r));
      rfbScheduleCopyRegion(S, r, (int)a[2], (int)a[3]);
      sraRgnDestroy(r);
    } else if (!strcmp(op, "copyall")) {
      sraRegionPtr r = sraRgnCreateRect(0, 0, S->width, S->height);
      rfbScheduleCopyRegion(S, r, (int)a[0], (int)a[1]);
      sraRgnDestroy(r);
    } else if (!strcmp(op, "raw")) {         /* raw HEX: arbitrary client bytes */
      char *h = line + 4; unsigned char *m = malloc(strlen(h)); int k = 0; unsigned v;
      while (h[0] && h[1] && sscanf(h, "%2x", &v) == 1) { m[k++] = (unsigned char)v; h += 2; }
      if (peerA >= 0 && k) vs_write(peerA, m, k);
      free(m);
    } else if (!strcmp(op, "pump")) {
    } else if (!strcmp(op, "close")) {
      pthread_mutex_lock(&drain_mx); drain_fd[0] = -1; pthread_mutex_unlock(&drain_mx);
      if (peerA >= 0) { close(peerA); peerA = -1; }
    } else {
      printf("?? %s", line);
    }
    flush_op();
  }
  return 0;
}
