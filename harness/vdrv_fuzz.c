/* vdrv_fuzz.c - C04 driver: the real server (sanitizer build) fed with scripted, segmented,
 * timed client byte streams over socketpairs.
 *
 * Link-time wraps (see props/C04.py): select, read, write  -> deterministic segmentation, virtual
 * time, stalled / resetting peers;  malloc, calloc, realloc -> allocation log;  open, creat, fopen,
 * opendir, mkdir, rmdir, unlink, rename, stat, utime -> confinement of file transfer to a sandbox.
 *
 * Script (stdin), one op per line, cases start with "case <n> ...".  Every case runs in a forked
 * child: a sanitizer report, signal, watchdog timeout or detected busy loop ends that case only and
 * is reported by the parent as a line "crash ..." / printed by the child as "... res=wedge".
 *
 *   cfg w= h= bpp= pw= ft= xvp= utf8= wait= view= dsz=     server configuration (+ witness client)
 *   open A | ev A data HEX | ev A pause MS | ev A eof | ev A reset | ev A stall | ev A auth ok|bad
 *   connect A [pre]     rfbNewClient (pre: first event is delivered before the call)
 *   run A               rfbProcessEvents until the schedule of A is exhausted: one "pe" line per call
 *   update A            whole screen modified, update forced: announced rectangle count
 *   witness             the well-behaved second client requests and checks a full Raw update
 *
 * Fields starting with '~' are implementation-only (not produced by the model). */
#define _GNU_SOURCE
#include "vsess.h"
#include <sys/ioctl.h>
#include <sys/wait.h>
#include <sys/stat.h>
#include <sys/mman.h>
#include <sys/select.h>
#include <signal.h>
#include <dirent.h>
#include <stdarg.h>
#include <utime.h>
#include <limits.h>

#define ALLOC_FLOOR 4096
#define MAXEV 4096
#define MAXCONN 4
#define BIGDEFER 1000000000

ssize_t __real_read(int, void *, size_t);
ssize_t __real_write(int, const void *, size_t);
int __real_select(int, fd_set *, fd_set *, fd_set *, struct timeval *);
void *__real_malloc(size_t);
void *__real_calloc(size_t, size_t);
void *__real_realloc(void *, size_t);

enum { EV_DATA, EV_PAUSE, EV_EOF, EV_RESET, EV_STALL, EV_AUTH };
typedef struct { int kind; unsigned char *d; size_t n; long ms; } ev_t;
typedef struct {
  char name[8];
  int used, sfd, pfd;
  rfbClientPtr cl;
  int gone;            /* clientGoneHook ran (cl is freed afterwards) */
  ev_t *ev; int nev, cur;
  int stalled, reset_fed, eof_fed;
  int last_unread, same;
  int auth_unread;     /* the bytes just fed are an auth response: reported as the model's placeholder */
  vs_buf out;          /* everything the peer received */
} conn_t;

static conn_t conns[MAXCONN];
static rfbScreenInfoPtr scr;
static int armed = 0;
static int W = 8, H = 8, BPP = 32, cfg_pw, cfg_ft, cfg_xvp, cfg_utf8, cfg_wait, cfg_view, cfg_dsz;
static long vwait_total, vwait_max; static int vwait_n;      /* virtual waits inside the current call */
static int spin, nsel;
static long nap_acc; static int nap_used;   /* naps of a repaired rfbPeekExactTimeout */
static char sandbox[PATH_MAX];

static int alog_on;
/* ---- allocation log ------------------------------------------------------------------ */
static size_t alog[64]; static int alog_n; static size_t alog_max;
static void alog_add(size_t n, int list) {
  if (!alog_on) return;
  if (n > alog_max) alog_max = n;
  if (list && n > ALLOC_FLOOR && alog_n < 64) alog[alog_n++] = n;
}
/* only memory actually obtained counts (a refused request of an absurd size allocates nothing) */
void *__wrap_malloc(size_t n) { void *p = __real_malloc(n); if (p) alog_add(n, 1); return p; }
void *__wrap_calloc(size_t a, size_t b) { void *p = __real_calloc(a, b); if (p) alog_add(a * b, 1); return p; }
void *__wrap_realloc(void *q, size_t n) { void *p = __real_realloc(q, n); if (p) alog_add(n, 0); return p; }

/* ---- callback log -------------------------------------------------------------------- */
static char cb[8192]; static size_t cbn;
static void cb_add(const char *fmt, ...) {
  va_list ap; va_start(ap, fmt);
  if (cbn && cbn < sizeof cb - 1) cb[cbn++] = ',';
  if (cbn < sizeof cb - 200) cbn += vsnprintf(cb + cbn, sizeof cb - cbn, fmt, ap);
  va_end(ap);
}
static unsigned sum_of(const char *s, size_t n) { unsigned a = 0; size_t i; for (i = 0; i < n; i++) a = (a * 31 + (unsigned char)s[i]) % 1000003u; return a; }
static conn_t *conn_of_cl(rfbClientPtr cl) { int i; for (i = 0; i < MAXCONN; i++) if (conns[i].used && conns[i].cl == cl) return &conns[i]; return NULL; }
static const char *cn(rfbClientPtr cl) { conn_t *c = conn_of_cl(cl); return c ? c->name : "?"; }

static void h_kbd(rfbBool down, rfbKeySym k, rfbClientPtr cl) { cb_add("kbd:%s:%d:%u", cn(cl), down ? 1 : 0, (unsigned)k); }
static void h_ptr(int m, int x, int y, rfbClientPtr cl) { cb_add("ptr:%s:%d:%d:%d", cn(cl), m, x, y); }
static void h_cut(char *s, int len, rfbClientPtr cl) { cb_add("cut:%s:%d:%u", cn(cl), len, sum_of(s, len > 0 ? len : 0)); }
static void h_cut8(char *s, int len, rfbClientPtr cl) { cb_add("utf8:%s:%d", cn(cl), len); }
static void h_chat(rfbClientPtr cl, int len, char *s) {
  unsigned L = (unsigned)len;
  cb_add("chat:%s:%u:%u", cn(cl), L, s ? sum_of(s, L) : 0);
}
static rfbBool h_xvp(rfbClientPtr cl, uint8_t v, uint8_t c) { cb_add("xvp:%s:%d:%d", cn(cl), v, c); return (c & 1) ? TRUE : FALSE; }
static int h_dsz(int w, int h, int n, rfbExtDesktopScreen *e, rfbClientPtr cl) {
  unsigned long long a = 0; int i;
  for (i = 0; i < n; i++) a = (a * 31 + (unsigned long long)e[i].id + e[i].x + e[i].y + e[i].width + e[i].height + (unsigned long long)e[i].flags) % 1000003ull;
  cb_add("dsz:%s:%d:%d:%d:%llu", cn(cl), w, h, n, a); return (w & 1) ? rfbExtDesktopSize_ResizeProhibited : rfbExtDesktopSize_Success;
}
static void h_sw(rfbClientPtr cl, int x, int y) { cb_add("sw:%s:%d:%d", cn(cl), x, y); }
static void h_si(rfbClientPtr cl, int st) { cb_add("si:%s:%d", cn(cl), st); }
static void h_fur(rfbClientPtr cl, rfbFramebufferUpdateRequestMsg *m) { cb_add("fur:%s:%d:%d:%d:%d:%d", cn(cl), m->incremental ? 1 : 0, m->x, m->y, m->w, m->h); }
static void h_gone(rfbClientPtr cl) { conn_t *c = conn_of_cl(cl); if (c) { c->gone = 1; c->cl = NULL; } }
static enum rfbNewClientAction h_new(rfbClientPtr cl) {
  cl->clientGoneHook = h_gone; cl->clientFramebufferUpdateRequestHook = h_fur;
  cl->viewOnly = cfg_view ? TRUE : FALSE;
  return RFB_CLIENT_ACCEPT;
}

/* ---- filesystem confinement ------------------------------------------------------------ */
static int path_ok(const char *p) {
  char full[PATH_MAX * 2], norm[PATH_MAX * 2]; size_t n = 0; const char *s;
  if (!p || !sandbox[0]) return 0;
  if (p[0] == '/') snprintf(full, sizeof full, "%s", p); else snprintf(full, sizeof full, "%s/%s", sandbox, p);
  norm[0] = 0;
  for (s = full; *s;) {
    const char *e; size_t l;
    while (*s == '/') s++;
    e = strchr(s, '/'); l = e ? (size_t)(e - s) : strlen(s);
    if (l == 0) break;
    if (l == 1 && s[0] == '.') { }
    else if (l == 2 && s[0] == '.' && s[1] == '.') { while (n > 0 && norm[n - 1] != '/') n--; if (n > 0) n--; norm[n] = 0; }
    else { if (n + l + 2 >= sizeof norm) return 0; norm[n++] = '/'; memcpy(norm + n, s, l); n += l; norm[n] = 0; }
    s += l;
  }
  { size_t sl = strlen(sandbox); return strncmp(norm, sandbox, sl) == 0 && (norm[sl] == '/' || norm[sl] == 0); }
}
int __real_open(const char *, int, ...); int __real_creat(const char *, mode_t); FILE *__real_fopen(const char *, const char *);
DIR *__real_opendir(const char *); int __real_mkdir(const char *, mode_t); int __real_rmdir(const char *);
int __real_unlink(const char *); int __real_rename(const char *, const char *); int __real_stat(const char *, struct stat *);
int __real_utime(const char *, const struct utimbuf *);
static int fs_denied;
#define DENY(p, ret) if (armed && !path_ok(p)) { fs_denied++; errno = EACCES; return ret; }
int __wrap_open(const char *p, int fl, ...) { mode_t m = 0; va_list ap; va_start(ap, fl); m = va_arg(ap, int); va_end(ap); DENY(p, -1); return __real_open(p, fl, m); }
int __wrap_creat(const char *p, mode_t m) { DENY(p, -1); return __real_creat(p, m); }
FILE *__wrap_fopen(const char *p, const char *m) { DENY(p, NULL); return __real_fopen(p, m); }
DIR *__wrap_opendir(const char *p) { DENY(p, NULL); return __real_opendir(p); }
int __wrap_mkdir(const char *p, mode_t m) { DENY(p, -1); return __real_mkdir(p, m); }
int __wrap_rmdir(const char *p) { DENY(p, -1); return __real_rmdir(p); }
int __wrap_unlink(const char *p) { DENY(p, -1); return __real_unlink(p); }
int __wrap_rename(const char *a, const char *b) { DENY(a, -1); DENY(b, -1); return __real_rename(a, b); }
/* time stamps of files are reported to the peer (directory listings, file headers): fixed, so that two runs of a
 * case produce the same bytes */
static void fix_times(struct stat *st) { st->st_mtime = st->st_ctime = st->st_atime = 1600000000; }
int __wrap_stat(const char *p, struct stat *st) { int r; DENY(p, -1); r = __real_stat(p, st); if (r == 0 && armed) fix_times(st); return r; }
int __real_fstat(int, struct stat *);
int __wrap_fstat(int fd, struct stat *st) { int r = __real_fstat(fd, st); if (r == 0 && armed && S_ISREG(st->st_mode)) fix_times(st); return r; }
int __wrap_utime(const char *p, const struct utimbuf *t) { DENY(p, -1); return __real_utime(p, t); }

/* ---- scheduled peers -------------------------------------------------------------------- */
static conn_t *conn_by_name(const char *n) { int i; for (i = 0; i < MAXCONN; i++) if (conns[i].used && !strcmp(conns[i].name, n)) return &conns[i]; return NULL; }
static conn_t *conn_by_sfd(int fd) { int i; for (i = 0; i < MAXCONN; i++) if (conns[i].used && conns[i].sfd == fd && conns[i].ev) return &conns[i]; return NULL; }
static int unread(conn_t *c) { int n = 0; if (ioctl(c->sfd, FIONREAD, &n) < 0) return 0; return n; }
static void drain(conn_t *c) { int sv = alog_on; alog_on = 0; if (c->pfd >= 0) vs_drain(c->pfd, &c->out); alog_on = sv; }

static void die_wedge(const char *what);
static conn_t *cur_conn;
static void dirty_stack(void);

/* deliver the event at c->cur (not a pause) */
static void feed(conn_t *c) {
  ev_t *e = &c->ev[c->cur++];
  switch (e->kind) {
  case EV_DATA: vs_write(c->pfd, e->d, e->n); break;
  case EV_EOF: shutdown(c->pfd, SHUT_WR); c->eof_fed = 1; break;
  case EV_RESET: c->reset_fed = 1; break;
  case EV_AUTH: {
    unsigned char r[CHALLENGESIZE]; memset(r, 0x5a, sizeof r);
    if (c->cl && !c->gone) { memcpy(r, c->cl->authChallenge, CHALLENGESIZE); rfbEncryptBytes(r, e->ms ? "secret" : "wrongpw"); }
    vs_write(c->pfd, r, CHALLENGESIZE); c->auth_unread = e->ms ? 0xA1 : 0xB2; break; }
  default: break;
  }
}
/* skip stall markers (they take effect when reached) */
static void skip_marks(conn_t *c) { while (c->cur < c->nev && c->ev[c->cur].kind == EV_STALL) { c->stalled = 1; c->cur++; } }

static void wait_rec(long ms) { vwait_total += ms; vwait_n++; if (ms > vwait_max) vwait_max = ms; }

ssize_t __wrap_read(int fd, void *buf, size_t n) {
  conn_t *c = armed ? conn_by_sfd(fd) : NULL;
  if (c && c->reset_fed && unread(c) == 0) { errno = ECONNRESET; return -1; }
  return __real_read(fd, buf, n);
}
ssize_t __real_recv(int, void *, size_t, int);
ssize_t __wrap_recv(int fd, void *buf, size_t n, int flags) {
  conn_t *c = armed ? conn_by_sfd(fd) : NULL;
  if (c && c->reset_fed && unread(c) == 0) { errno = ECONNRESET; return -1; }
  return __real_recv(fd, buf, n, flags);
}
ssize_t __wrap_write(int fd, const void *buf, size_t n) {
  conn_t *c = armed ? conn_by_sfd(fd) : NULL;
  if (c && c->stalled) { errno = EAGAIN; return -1; }
  if (c) drain(c);
  return __real_write(fd, buf, n);
}

/* This harness is single-threaded by design (virtual time, lazy feeding, one log).  The only thread the library
 * starts on its own here - the TightVNC extension's download thread - therefore runs to completion inside
 * pthread_create(): the replies come in a fixed order (what the two-run comparison needs) and the wraps are
 * never entered concurrently.  Real concurrency is the business of vdrv_threads (C13). */
#include <pthread.h>
int __real_pthread_create(pthread_t *, const pthread_attr_t *, void *(*)(void *), void *);
int __real_pthread_join(pthread_t, void **);
int __wrap_pthread_create(pthread_t *t, const pthread_attr_t *a, void *(*fn)(void *), void *arg) {
  if (!armed) return __real_pthread_create(t, a, fn, arg);
  if (t) *t = pthread_self();
  fn(arg);
  return 0;
}
int __wrap_pthread_join(pthread_t t, void **rv) {
  if (armed && pthread_equal(t, pthread_self())) { if (rv) *rv = NULL; return 0; }
  return __real_pthread_join(t, rv);
}

int __wrap_select(int nfds, fd_set *r, fd_set *w, fd_set *e, struct timeval *tv) {
  int i; conn_t *c = NULL;
  long tmo = tv ? tv->tv_sec * 1000 + tv->tv_usec / 1000 : 0x7fffffff;
  if (!armed) return __real_select(nfds, r, w, e, tv);
  if (++nsel > 50000) die_wedge("select-loop");   /* one library call that keeps selecting: it never gives up */
  if (r && e) {                        /* rfbReadExactTimeout / rfbPeekExactTimeout waiting for one client */
    for (i = 0; i < MAXCONN; i++) if (conns[i].used && conns[i].ev && conns[i].sfd < nfds && FD_ISSET(conns[i].sfd, r)) c = &conns[i];
    if (!c) return __real_select(nfds, r, w, e, tv);
    FD_ZERO(e);
    if (unread(c) > 0) {
      /* readable but the caller came back without consuming: a busy wait (partial peek).  Following
       * events still arrive (busy-waited, not bounded by the timeout); if nothing more can arrive the
       * loop never ends. */
      long paused = 0; int u = unread(c);
      /* only a caller that comes back twice with the very same unread count is spinning (a WebSocket
       * decoder may legitimately return EAGAIN after consuming part of what was there) */
      if (u != c->last_unread) { c->last_unread = u; c->same = 0; return 1; }
      if (++c->same < 2) return 1;
      if (++spin > 64) die_wedge("busy-loop");
      skip_marks(c);
      while (c->cur < c->nev && c->ev[c->cur].kind == EV_PAUSE) { paused += c->ev[c->cur].ms; c->cur++; skip_marks(c); }
      if (c->cur >= c->nev || (c->ev[c->cur].kind != EV_DATA && c->ev[c->cur].kind != EV_AUTH)) die_wedge("busy-loop");
      wait_rec(paused);
      feed(c);
      return 1;
    }
    c->last_unread = 0; c->same = 0;
    if (c->eof_fed || c->reset_fed) return 1;
    {
      long paused = 0;
      skip_marks(c);
      while (c->cur < c->nev && c->ev[c->cur].kind == EV_PAUSE) {
        if (paused + c->ev[c->cur].ms >= tmo) { wait_rec(tmo); FD_ZERO(r); return 0; }
        paused += c->ev[c->cur].ms; c->cur++; skip_marks(c);
      }
      if (c->cur >= c->nev) { wait_rec(tmo); FD_ZERO(r); return 0; }
      wait_rec(paused);
      feed(c);
      return 1;
    }
  }
  if (w && !r) {                       /* rfbWriteExact (5 s slices) or the file-transfer poll */
    for (i = 0; i < MAXCONN; i++) if (conns[i].used && conns[i].ev && conns[i].sfd < nfds && FD_ISSET(conns[i].sfd, w)) c = &conns[i];
    if (!c) return __real_select(nfds, r, w, e, tv);
    if (c->stalled) { if (tmo > 0) wait_rec(tmo); FD_ZERO(w); return 0; }
    drain(c);
    return __real_select(nfds, r, w, e, tv);
  }
  if (!r && !w && !e) {                /* a pure sleep: the repaired partial peek naps 1 ms at a time */
    c = cur_conn;
    if (!c) return 0;
    nap_used = 1; nap_acc += tmo > 0 ? tmo : 1;
    skip_marks(c);
    if (c->cur < c->nev) {
      if (c->ev[c->cur].kind == EV_PAUSE) { c->ev[c->cur].ms -= (tmo > 0 ? tmo : 1); if (c->ev[c->cur].ms <= 0) c->cur++; }
      else feed(c);
    }
    return 0;
  }
  if (r && !w && !e) {                 /* rfbCheckFds */
    int n = __real_select(nfds, r, w, e, tv);
    if (n < 0) return n;
    for (i = 0; i < MAXCONN; i++) {
      c = &conns[i];
      if (c->used && c->ev && c->reset_fed && !c->gone && c->sfd < nfds && !FD_ISSET(c->sfd, r) &&
          scr && FD_ISSET(c->sfd, &scr->allFds)) { FD_SET(c->sfd, r); n++; }
    }
    return n;
  }
  return __real_select(nfds, r, w, e, tv);
}

/* ---- helpers ------------------------------------------------------------------------------ */
static void out(const char *fmt, ...) { va_list ap; va_start(ap, fmt); vprintf(fmt, ap); va_end(ap); fflush(stdout); }
static const char *wedge_prefix = "";
static void die_wedge(const char *what) {
  /* we are deep inside the library, which would spin forever: report and end the case */
  out("%sres=wedge what=%s w=%ld nw=%d mw=%ld\n", wedge_prefix, what, vwait_total, vwait_n, vwait_max);
  _exit(0);
}
static int hexval(int ch) { return ch >= '0' && ch <= '9' ? ch - '0' : ch >= 'a' && ch <= 'f' ? ch - 'a' + 10 : ch >= 'A' && ch <= 'F' ? ch - 'A' + 10 : -1; }
static long kv(const char *line, const char *key, long def) {
  char pat[32]; const char *p; snprintf(pat, sizeof pat, " %s=", key); p = strstr(line, pat);
  return p ? atol(p + strlen(pat)) : def;
}
static const char *pwlist[] = { "secret", NULL };

static conn_t witness; static int have_witness;

static void op_cfg(const char *line) {
  int wfd;
  W = kv(line, "w", 8); H = kv(line, "h", 8); BPP = kv(line, "bpp", 32);
  cfg_pw = kv(line, "pw", 0); cfg_ft = kv(line, "ft", 0); cfg_xvp = kv(line, "xvp", 0); cfg_utf8 = kv(line, "utf8", 0);
  cfg_wait = kv(line, "wait", 0); cfg_view = kv(line, "view", 0); cfg_dsz = kv(line, "dsz", 0);
  if (kv(line, "ext", 0)) {
    /* the TightVNC file-transfer extension (security type 16), rooted in the sandbox */
    extern int SetFtpRoot(char *path); extern void EnableFileTransfer(rfbBool enable);
    rfbRegisterTightVNCFileTransferExtension();
    if (sandbox[0]) SetFtpRoot(sandbox);
    if (kv(line, "ext", 0) == 2) EnableFileTransfer(FALSE);      /* -disablefiletransfer */
  }
  scr = vs_screen(W, H, BPP / 8);
  if (!scr) { out("cfg fail\n"); _exit(0); }
  { /* framebuffer content classes: 0 byte pattern, 1 flat, 2 few colours, 3 noise, 4 smooth gradient (JPEG-friendly) */
    int content = kv(line, "content", 0), x, y, bpx = BPP / 8; unsigned lcg = 12345;
    for (y = 0; y < H; y++) for (x = 0; x < W; x++) {
      uint32_t px; int k; unsigned char *q = (unsigned char *)scr->frameBuffer + ((size_t)y * W + x) * bpx;
      switch (content) {
      case 1: px = 0x00336699u; break;
      case 2: px = ((x / 8 + y / 8) & 1) ? 0x00ff0000u : (((x / 16) & 1) ? 0x0000ff00u : 0x000000ffu); break;
      case 3: lcg = lcg * 1103515245u + 12345u; px = lcg >> 8; break;
      case 4: px = ((uint32_t)(x * 255 / (W > 1 ? W - 1 : 1)) << 16) | ((uint32_t)(y * 255 / (H > 1 ? H - 1 : 1)) << 8) |
                   (uint32_t)((x + y) * 255 / (W + H > 2 ? W + H - 2 : 1)); break;
      default: px = 0; break;
      }
      if (content == 0) { for (k = 0; k < bpx; k++) q[k] = (unsigned char)((((size_t)y * W + x) * bpx + k) * 7 + 3); }
      else if (bpx == 4) memcpy(q, &px, 4);
      else if (bpx == 2) { uint16_t v = (uint16_t)(((px >> 19) & 31) << 10 | ((px >> 11) & 31) << 5 | ((px >> 3) & 31)); memcpy(q, &v, 2); }
      else q[0] = (unsigned char)(((px >> 22) & 3) << 4 | ((px >> 14) & 3) << 2 | ((px >> 6) & 3));
    }
  }
  scr->deferUpdateTime = BIGDEFER;
  scr->alwaysShared = TRUE;
  scr->newClientHook = h_new;
  scr->kbdAddEvent = h_kbd; scr->ptrAddEvent = h_ptr; scr->setXCutText = h_cut;
  scr->setTextChat = h_chat; scr->setSingleWindow = h_sw; scr->setServerInput = h_si;
  if (cfg_utf8) scr->setXCutTextUTF8 = h_cut8;
  if (cfg_xvp) scr->xvpHook = h_xvp;
  if (cfg_dsz) scr->setDesktopSizeHook = h_dsz;
  if (cfg_ft) scr->permitFileTransfer = TRUE;
  if (cfg_wait) scr->maxClientWait = cfg_wait;
  armed = 1;
  /* the witness: an ordinary client on an unscheduled socketpair (set up before a password is
   * configured so that its handshake is the plain one) */
  memset(&witness, 0, sizeof witness); have_witness = 0;
  if (kv(line, "wit", 1)) {
    int sv[2]; rfbClientPtr wc = NULL; unsigned char m[2];
    if (socketpair(AF_UNIX, SOCK_STREAM, 0, sv) == 0) {
      fcntl(sv[1], F_SETFL, fcntl(sv[1], F_GETFL) | O_NONBLOCK);
      wfd = sv[1];
      vs_write(wfd, "RFB 003.008\n", 12);
      wc = rfbNewClient(scr, sv[0]);
      if (wc) {
        vs_pump(scr, 1, &wfd, &witness.out);
        m[0] = 1; vs_write(wfd, m, 1); vs_pump(scr, 1, &wfd, &witness.out);   /* security type None */
        m[0] = 1; vs_write(wfd, m, 1); vs_pump(scr, 1, &wfd, &witness.out);   /* ClientInit shared */
        if (wc->state == RFB_NORMAL) { witness.cl = wc; witness.pfd = wfd; have_witness = 1; }
      }
    }
  }
  if (cfg_pw) { scr->authPasswdData = (void *)pwlist; scr->passwordCheck = rfbCheckPasswordByList; }
  out("cfg ok wit=%d\n", have_witness);
}

static void op_open(const char *name) {
  int i, sv[2];
  for (i = 0; i < MAXCONN; i++) if (!conns[i].used) break;
  if (i == MAXCONN || socketpair(AF_UNIX, SOCK_STREAM, 0, sv) < 0) { out("open fail\n"); return; }
  memset(&conns[i], 0, sizeof conns[i]);
  snprintf(conns[i].name, sizeof conns[i].name, "%s", name);
  conns[i].used = 1; conns[i].sfd = sv[0]; conns[i].pfd = sv[1];
  conns[i].ev = (ev_t *)__real_calloc(MAXEV, sizeof(ev_t));
  fcntl(sv[1], F_SETFL, fcntl(sv[1], F_GETFL) | O_NONBLOCK);
  { int sz = 4 << 20; setsockopt(sv[0], SOL_SOCKET, SO_SNDBUF, &sz, sizeof sz); setsockopt(sv[1], SOL_SOCKET, SO_RCVBUF, &sz, sizeof sz);
    setsockopt(sv[1], SOL_SOCKET, SO_SNDBUF, &sz, sizeof sz); setsockopt(sv[0], SOL_SOCKET, SO_RCVBUF, &sz, sizeof sz); }
  out("open %s\n", name);
}

static void op_ev(conn_t *c, char *kind, char *arg) {
  ev_t *e;
  if (c->nev >= MAXEV) { out("ev full\n"); return; }
  e = &c->ev[c->nev];
  if (!strcmp(kind, "data")) {
    size_t n = arg ? strlen(arg) / 2 : 0, i;
    if (n == 0) { out("ev empty\n"); return; }
    e->kind = EV_DATA; e->d = (unsigned char *)__real_malloc(n); e->n = n;
    for (i = 0; i < n; i++) e->d[i] = (unsigned char)(hexval(arg[2 * i]) * 16 + hexval(arg[2 * i + 1]));
  } else if (!strcmp(kind, "pause")) { e->kind = EV_PAUSE; e->ms = arg ? atol(arg) : 1; if (e->ms < 1) e->ms = 1; }
  else if (!strcmp(kind, "eof")) e->kind = EV_EOF;
  else if (!strcmp(kind, "reset")) e->kind = EV_RESET;
  else if (!strcmp(kind, "stall")) e->kind = EV_STALL;
  else if (!strcmp(kind, "auth")) { e->kind = EV_AUTH; e->ms = arg && !strcmp(arg, "ok"); }
  else { out("ev ?\n"); return; }
  c->nev++;
  out("ev\n");
}

static void begin_call(void) { nsel = 0; vwait_total = 0; vwait_n = 0; vwait_max = 0; spin = 0; cbn = 0; cb[0] = 0; alog_n = 0; alog_max = 0; }
static void print_call_tail(void) {
  int i;
  out(" cb=[%s] big=[", cb);
  for (i = 0; i < alog_n; i++) out(i ? ",%zu" : "%zu", alog[i]);
  out("] w=%ld nw=%d mw=%ld ~mx=%zu\n", vwait_total, vwait_n, vwait_max, alog_max);
}
static const char *st_of(conn_t *c) { static char b[16]; if (c->gone || !c->cl) return "-"; snprintf(b, sizeof b, "%d", (int)c->cl->state); return b; }

static void op_connect(conn_t *c, int pre) {
  rfbClientPtr cl;
  begin_call();
  wedge_prefix = "";
  out("connect %s ", c->name);
  if (pre) { skip_marks(c); while (c->cur < c->nev && c->ev[c->cur].kind == EV_PAUSE) { c->cur++; skip_marks(c); } if (c->cur < c->nev) feed(c); }
  errno = 0;
  dirty_stack();
  alog_on = 1; cur_conn = c; nap_acc = 0; nap_used = 0;
  cl = rfbNewClient(scr, c->sfd);
  alog_on = 0; cur_conn = NULL;
  if (nap_used) wait_rec(nap_acc);
  c->cl = c->gone ? NULL : cl;
  if (!cl) { c->gone = 1; c->cl = NULL; }
  out("res=%s", cl ? (cl->wsctx ? "ws" : "ok") : "closed");
  print_call_tail();
}

/* one rfbProcessEvents call */
/* VDRV_FILL=<byte>: scribble over the stack region the library is about to use, so that two runs with
 * different bytes (and different ASLR, heap fill) expose output that depends on uninitialised memory */
static int fill_byte = -1;
static __attribute__((noinline)) void dirty_stack(void) {
  volatile unsigned char buf[24576]; size_t i;
  if (fill_byte < 0) return;
  for (i = 0; i < sizeof buf; i++) buf[i] = (unsigned char)fill_byte;
}

static void pe_call(void) {
  begin_call();
  dirty_stack();
  wedge_prefix = "pe ";
  alog_on = 1;
  rfbProcessEvents(scr, 0);
  alog_on = 0;
}

static void op_run(conn_t *c) {
  int guard = 0, ty;
  while (!c->gone && c->cl && guard++ < 100000) {
    if (unread(c) == 0 && !c->eof_fed && !c->reset_fed) {
      skip_marks(c);
      while (c->cur < c->nev && c->ev[c->cur].kind == EV_PAUSE) { c->cur++; skip_marks(c); }
      if (c->cur >= c->nev) break;
      feed(c);
    }
    { unsigned char b; ty = recv(c->sfd, &b, 1, MSG_PEEK | MSG_DONTWAIT) == 1 ? b : -1; }
    if (c->auth_unread) { ty = c->auth_unread; c->auth_unread = 0; }
    pe_call();
    drain(c);
    out("pe t=%d st=%s closed=%d", ty, st_of(c), c->gone ? 1 : 0);
    if (!c->gone && c->cl && c->cl->scaledScreen) out(" ~sc=%dx%d", c->cl->scaledScreen->width, c->cl->scaledScreen->height);
    print_call_tail();
  }
  out("run %s end closed=%d st=%s\n", c->name, c->gone || !c->cl ? 1 : 0, st_of(c));
}

static void op_update(conn_t *c) {
  size_t before; int n = -1, k;
  if (c->gone || !c->cl) { out("update %s closed=1 n=-1\n", c->name); return; }
  drain(c); before = c->out.n;
  scr->deferUpdateTime = 0;
  rfbMarkRectAsModified(scr, 0, 0, W, H);
  for (k = 0; k < 3; k++) { begin_call(); dirty_stack(); rfbProcessEvents(scr, 0); drain(c); if (have_witness) vs_drain(witness.pfd, &witness.out); }
  scr->deferUpdateTime = BIGDEFER;
  if (c->out.n >= before + 4 && c->out.p[before] == 0) n = (c->out.p[before + 2] << 8) | c->out.p[before + 3];
  out("update %s closed=%d n=%d ~bytes=%zu\n", c->name, c->gone ? 1 : 0, n, c->out.n - before);
}

/* the witness asks for the whole screen (Raw) and checks what it gets */
static void op_witness(void) {
  int32_t enc[2] = { 0, (int32_t)0xFFFFFF11 }; size_t p; int ok = 0, k, i, nr; const char *why = "no-update";
  size_t bpp = BPP / 8; unsigned char *seen;
  if (!have_witness) { out("witness ok=0 ~why=absent\n"); return; }
  vs_drain(witness.pfd, &witness.out); witness.out.rd = witness.out.n;
  vs_send_set_encodings(witness.pfd, 2, enc);   /* Raw + RichCursor: the server then never paints the cursor for us */
  vs_send_fur(witness.pfd, 0, 0, 0, W, H);
  scr->deferUpdateTime = 0;
  for (k = 0; k < 6; k++) {
    begin_call(); rfbProcessEvents(scr, 0); vs_drain(witness.pfd, &witness.out);
    for (i = 0; i < MAXCONN; i++) if (conns[i].used) drain(&conns[i]);
  }
  scr->deferUpdateTime = BIGDEFER;
  p = witness.out.rd;
  seen = (unsigned char *)__real_calloc((size_t)W * H + 1, 1);
  if (witness.out.n - p >= 4 && witness.out.p[p] == 0) {
    nr = vs_get16(witness.out.p + p + 2); p += 4; ok = 1; why = "ok";
    for (k = 0; k < nr && ok; k++) {
      unsigned x, y, w, h, yy; uint32_t e;
      if (witness.out.n - p < 12) { ok = 0; why = "short-header"; break; }
      x = vs_get16(witness.out.p + p); y = vs_get16(witness.out.p + p + 2); w = vs_get16(witness.out.p + p + 4); h = vs_get16(witness.out.p + p + 6);
      e = vs_get32(witness.out.p + p + 8); p += 12;
      if (e == 0xFFFFFF11u) {                      /* cursor shape: pixels + mask */
        size_t need = (size_t)w * h * bpp + (size_t)((w + 7) / 8) * h;
        if (witness.out.n - p < need) { ok = 0; why = "short-cursor"; break; }
        p += need; continue;
      }
      if (e != 0) { ok = 0; why = "not-raw"; break; }
      if (x + w > (unsigned)W || y + h > (unsigned)H) { ok = 0; why = "rect-outside"; break; }
      if (witness.out.n - p < (size_t)w * h * bpp) { ok = 0; why = "short-pixels"; break; }
      for (yy = 0; yy < h && ok; yy++) {
        if (memcmp(witness.out.p + p + (size_t)yy * w * bpp, scr->frameBuffer + ((size_t)(y + yy) * W + x) * bpp, w * bpp)) { ok = 0; why = "wrong-pixels"; }
        memset(seen + (size_t)(y + yy) * W + x, 1, w);
      }
      p += (size_t)w * h * bpp;
    }
    if (ok) for (i = 0; i < W * H; i++) if (!seen[i]) { ok = 0; why = "not-covered"; break; }
    if (ok && p != witness.out.n) { ok = 0; why = "trailing-bytes"; }
  }
  out("witness ok=%d ~why=%s\n", ok, why);
}

/* every case starts from the same sandbox content (file-transfer cases rearrange it), with fixed time stamps:
 * directory listings go to the peer */
#include <ftw.h>
static int rm_cb(const char *p, const struct stat *st, int flag, struct FTW *f) {
  if (f->level == 0) return 0;
  return (flag == FTW_DP || flag == FTW_D) ? rmdir(p) : unlink(p);
}
static void put_file(const char *name, const unsigned char *pat, size_t patn, size_t total) {
  char p[PATH_MAX + 64]; FILE *f; size_t i; struct utimbuf t = { 1600000000, 1600000000 };
  snprintf(p, sizeof p, "%s/%s", sandbox, name);
  f = fopen(p, "wb"); if (!f) return;
  for (i = 0; i < total; i++) fputc(pat[i % patn], f);
  fclose(f); utime(p, &t);
}
static void reset_sandbox(void) {
  char p[PATH_MAX + 64]; unsigned char seq[256]; int i; struct utimbuf t = { 1600000000, 1600000000 };
  if (!sandbox[0]) return;
  nftw(sandbox, rm_cb, 16, FTW_DEPTH | FTW_PHYS);
  for (i = 0; i < 256; i++) seq[i] = (unsigned char)i;
  put_file("f1.txt", (const unsigned char *)"hello file transfer\n", 20, 1000);
  put_file("f2.bin", seq, 256, 10240);
  snprintf(p, sizeof p, "%s/dir1", sandbox); mkdir(p, 0755);
  put_file("dir1/f3", (const unsigned char *)"x", 1, 10);
  utime(p, &t); utime(sandbox, &t);
}

static void run_case(char **lines, int n) {
  int i;
  reset_sandbox();
  if (getenv("VDRV_FILL")) fill_byte = atoi(getenv("VDRV_FILL")) & 255;
  alarm(120);   /* watchdog: loops are caught by the select counters long before */
  vs_quiet();
  for (i = 0; i < n; i++) {
    char buf[1 << 16], *tok[8]; int nt = 0; char *p;
    char *line = lines[i];
    if (!strncmp(line, "ev ", 3)) {            /* long lines: parse in place */
      char *a = line + 3, *k, *arg = NULL; conn_t *c;
      k = strchr(a, ' '); if (!k) { out("ev ?\n"); continue; } *k++ = 0;
      arg = strchr(k, ' '); if (arg) *arg++ = 0;
      c = conn_by_name(a); if (!c) { out("ev noconn\n"); continue; }
      op_ev(c, k, arg); continue;
    }
    snprintf(buf, sizeof buf, "%s", line);
    for (p = strtok(buf, " "); p && nt < 8; p = strtok(NULL, " ")) tok[nt++] = p;
    if (nt == 0) continue;
    if (!strcmp(tok[0], "cfg")) op_cfg(line);
    else if (!strcmp(tok[0], "zhint")) out("zhint\n");
    else if (!scr) out("nocfg\n");
    else if (!strcmp(tok[0], "open") && nt >= 2) op_open(tok[1]);
    else if (!strcmp(tok[0], "connect") && nt >= 2) { conn_t *c = conn_by_name(tok[1]); if (c) op_connect(c, nt >= 3 && !strcmp(tok[2], "pre")); else out("connect noconn\n"); }
    else if (!strcmp(tok[0], "run") && nt >= 2) { conn_t *c = conn_by_name(tok[1]); if (c) op_run(c); else out("run noconn\n"); }
    else if (!strcmp(tok[0], "update") && nt >= 2) { conn_t *c = conn_by_name(tok[1]); if (c) op_update(c); else out("update noconn\n"); }
    else if (!strcmp(tok[0], "witness")) op_witness();
    else out("?? %s\n", tok[0]);
  }
  out("~fsdenied=%d\n", fs_denied);
  if (getenv("VDRV_DUMP")) {                 /* everything the fuzzed peers received, for the two-run comparison */
    int k; size_t j;
    for (k = 0; k < MAXCONN; k++) if (conns[k].used) {
      drain(&conns[k]);
      printf("~out %s %zu ", conns[k].name, conns[k].out.n);
      for (j = 0; j < conns[k].out.n && j < 6000; j++) printf("%02x", conns[k].out.p[j]);
      printf("\n"); fflush(stdout);
    }
  }
}

/* summarise a sanitizer report (child's stderr) as one token */
static void summarise(const char *err, char *dst, size_t cap) {
  const char *p;
  if ((p = strstr(err, "runtime error: "))) {
    /* "<file>:<line>:<col>: runtime error: <what>" */
    const char *ls = p; char file[128] = "?"; int line = 0; char what[128]; size_t i = 0;
    while (ls > err && ls[-1] != '\n') ls--;
    { const char *sl = ls, *q; for (q = ls; q < p; q++) if (*q == '/') sl = q + 1; sscanf(sl, "%127[^:]:%d", file, &line); }
    p += 15; while (*p && *p != '\n' && i < sizeof what - 1) { what[i++] = (*p == ' ') ? '-' : *p; p++; } what[i] = 0;
    snprintf(dst, cap, "ubsan:%s@%s:%d", what, file, line); return;
  }
  if ((p = strstr(err, "ERROR: AddressSanitizer: "))) {
    char what[96]; size_t i = 0; const char *f; char fn[96] = "?";
    p += 25; while (*p && *p != ' ' && *p != '\n' && i < sizeof what - 1) what[i++] = *p++; what[i] = 0;
    /* first frame inside the library sources */
    if ((f = strstr(err, "/src/libvnc"))) { const char *b = f; while (b > err && b[-1] != ' ') b--; { const char *sl = b, *q; for (q = b; *q && *q != '\n' && *q != ' '; q++) if (*q == '/') sl = q + 1; sscanf(sl, "%95[^ \n]", fn); } }
    snprintf(dst, cap, "asan:%s@%s", what, fn); return;
  }
  if (strstr(err, "LeakSanitizer")) { snprintf(dst, cap, "lsan"); return; }
  snprintf(dst, cap, "none");
}

/* run the case whose lines are lines[0..n) (lines[0] is the "case ..." header) in a child of its own */
static void one_case(char **lines, size_t n) {
  pid_t pid; int st = 0, fd;
  printf("%s\n", lines[0]); fflush(stdout);
  fd = memfd_create("vdrv_err", 0);
  pid = fork();
  if (pid == 0) {
    if (fd >= 0) dup2(fd, 2);
    run_case(lines + 1, (int)(n - 1));
    fflush(stdout);
    _exit(0);
  }
  waitpid(pid, &st, 0);
  if (!(WIFEXITED(st) && WEXITSTATUS(st) == 0)) {
    static char err[1 << 16]; char sum[300]; ssize_t k = 0;
    if (fd >= 0) { lseek(fd, 0, SEEK_SET); k = read(fd, err, sizeof err - 1); if (k < 0) k = 0; }
    err[k] = 0;
    summarise(err, sum, sizeof sum);
    if (WIFSIGNALED(st) && WTERMSIG(st) == SIGALRM) printf("\ncrash timeout san=%s\n", sum);
    else if (WIFSIGNALED(st)) printf("\ncrash signal=%d san=%s\n", WTERMSIG(st), sum);
    else printf("\ncrash exit=%d san=%s\n", WEXITSTATUS(st), sum);
    fflush(stdout);
    fprintf(stderr, "=== %s\n%.6000s\n", lines[0], err);
  }
  if (fd >= 0) close(fd);
}

/* The script is consumed one case at a time and the text of a case lives in one buffer that is reused: the
 * process that forks stays small however long the script is (fork() of a sanitized process costs time in
 * proportion to what it has mapped - holding a 500 MB script made every case pay for it). */
int main(int argc, char **argv) {
  static char *buf; static size_t blen, bcap; static size_t *off; static size_t noff, capoff; static char **lines; static size_t caplines;
  char *ln = NULL; size_t cap = 0; ssize_t k; int have = 0, eof = 0;
  const char *sb = getenv("VDRV_SANDBOX");
  (void)argc; (void)argv;
  setvbuf(stdout, NULL, _IOLBF, 0);
  if (sb && *sb) { if (!realpath(sb, sandbox)) sandbox[0] = 0; }
  if (sandbox[0]) { setenv("HOME", sandbox, 1); if (chdir(sandbox) != 0) sandbox[0] = 0; }
  while (!eof) {
    int is_case;
    k = getline(&ln, &cap, stdin);
    if (k < 0) eof = 1;
    else while (k > 0 && (ln[k - 1] == '\n' || ln[k - 1] == '\r')) ln[--k] = 0;
    is_case = !eof && !strncmp(ln, "case ", 5);
    if ((eof || is_case) && have) {
      size_t i;
      if (noff > caplines) { caplines = noff * 2; lines = realloc(lines, caplines * sizeof *lines); if (!lines) return 2; }
      for (i = 0; i < noff; i++) lines[i] = buf + off[i];
      one_case(lines, noff);
      have = 0;
    }
    if (eof) break;
    if (is_case) { blen = 0; noff = 0; have = 1; }
    if (!have) continue;                                   /* anything before the first case header */
    if (blen + (size_t)k + 1 > bcap) { bcap = (blen + (size_t)k + 1) * 2; buf = realloc(buf, bcap); if (!buf) return 2; }
    if (noff + 1 > capoff) { capoff = (noff + 1) * 2; off = realloc(off, capoff * sizeof *off); if (!off) return 2; }
    off[noff++] = blen; memcpy(buf + blen, ln, (size_t)k + 1); blen += (size_t)k + 1;
  }
  return 0;
}
