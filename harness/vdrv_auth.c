/* C05 implementation driver: executes an authentication script against the real library
 * (static ASan build of /repo): several screens in ONE process (the security-handler list of
 * auth.c is process-global), connections over socketpairs, one observation line per operation
 * in the format of ocaml/driver_C05.ml.
 *
 * Every case runs in a forked child, so the process-global state of the library is pristine at
 * each "case" line and a crash of the library (reported as a line "x crashed ...") does not
 * stop the run.  random() is interposed (-Wl,--wrap=random): rfbRandomBytes draws the
 * challenge from the bytes given by "rand" lines (0 when exhausted), which makes the challenge
 * a script input; it is still read back off the wire by the oracle in props/C05.py.
 *
 * Script ops beyond the basic ones: "types a b c d" (security types of the four application handler objects),
 * "setfile s hex" (the password file of screen s is rewritten).
 * argv[1] = directory for password files. */
#include "vsess.h"
#include <signal.h>
#include <sys/wait.h>
#include <netinet/in.h>
#include <arpa/inet.h>

#define MAXS 8
#define MAXC 24
#define NEXT 4

static unsigned char randq[4096]; static size_t randn = 0, randrd = 0;
long __wrap_random(void) { return randrd < randn ? randq[randrd++] : 0; }

typedef struct {
  rfbClientPtr cl; int peer; vs_buf buf; int gone; int vo; int screen;
  int ext[16]; int next;
} conn_t;

static rfbScreenInfoPtr screens[MAXS]; static int nscreens;
static conn_t conns[MAXC]; static int nconns;
static const char *scratch = ".";

/* input events handed to the application (kbdAddEvent / ptrAddEvent) through the UDP channel, process-wide */
static int input_events = 0;
static int udp_port[MAXS]; static int udp_peer[MAXS];
/* only events of the screen's UDP pseudo-client are counted (input of RFB_NORMAL clients is C06) */
static void count_kbd(rfbBool down, rfbKeySym key, rfbClientPtr cl) { if (cl && cl == cl->screen->udpClient) input_events++; }
static void count_ptr(int mask, int x, int y, rfbClientPtr cl) { if (cl && cl == cl->screen->udpClient) input_events++; }

static void gone_hook(rfbClientPtr cl) {
  conn_t *c = (conn_t *)cl->clientData;
  if (c) { c->gone = 1; c->vo = cl->viewOnly ? 1 : 0; c->cl = NULL; }
}

/* application security handlers: log the invocation, then drop the client */
static void ext_common(rfbClientPtr cl, int k) {
  conn_t *c = (conn_t *)cl->clientData;
  if (c && c->next < 16) c->ext[c->next++] = k;
  rfbCloseClient(cl);
}
static void ext2(rfbClientPtr cl) { ext_common(cl, 2); }
static void ext3(rfbClientPtr cl) { ext_common(cl, 3); }
static void ext4(rfbClientPtr cl) { ext_common(cl, 4); }
static void ext5(rfbClientPtr cl) { ext_common(cl, 5); }
static rfbSecurityHandler exth[NEXT] = {
  { 16, ext2, NULL }, { 30, ext3, NULL }, { rfbSecTypeVncAuth, ext4, NULL }, { rfbSecTypeNone, ext5, NULL } };

/* "tight 1": object 2 is the library's own TightVNC security handler (type 16): reg 2 / unreg 2 call
 * rfbRegisterTightVNCFileTransferExtension / rfbUnregisterTightVNCFileTransferExtension */
static int tight_mode = 0;
static void do_reg(int k, int on) {
  if (k < 2 || k >= 2 + NEXT) return;
  if (tight_mode && k == 2) { if (on) rfbRegisterTightVNCFileTransferExtension(); else rfbUnregisterTightVNCFileTransferExtension(); return; }
  if (on) rfbRegisterSecurityHandler(&exth[k - 2]); else rfbUnregisterSecurityHandler(&exth[k - 2]);
}

/* a custom passwordCheck callback (not one of the two built-in ones): response = challenge xor 0x5a */
static rfbBool xor_check(rfbClientPtr cl, const char *response, int len) {
  int i; for (i = 0; i < len; i++) if ((unsigned char)response[i] != (cl->authChallenge[i] ^ 0x5a)) return FALSE;
  return TRUE;
}
/* "encfail 1": the DES backend fails from now on (gcry_cipher_setkey refuses every key) */
#include <gcrypt.h>
static int enc_fail = 0;
gcry_error_t __real_gcry_cipher_setkey(gcry_cipher_hd_t h, const void *k, size_t l);
gcry_error_t __wrap_gcry_cipher_setkey(gcry_cipher_hd_t h, const void *k, size_t l) {
  if (enc_fail) return gcry_error(GPG_ERR_INV_KEYLEN);
  return __real_gcry_cipher_setkey(h, k, l);
}
static size_t unhex(const char *s, unsigned char *out, size_t cap);
static char **make_list(char **tok, int np) {
  int i; char **list = (char **)calloc((size_t)np + 1, sizeof(char *));
  for (i = 0; i < np; i++) {
    unsigned char pw[64]; size_t pn = unhex(tok[i], pw, 63);
    list[i] = (char *)malloc(pn + 1); memcpy(list[i], pw, pn); list[i][pn] = 0;
  }
  return list;
}

static int hexval(int c) { return c <= '9' ? c - '0' : (c | 32) - 'a' + 10; }
static size_t unhex(const char *s, unsigned char *out, size_t cap) {
  size_t n = 0;
  if (!strcmp(s, "-")) return 0;
  while (s[0] && s[1] && n < cap) { out[n++] = (unsigned char)(hexval(s[0]) * 16 + hexval(s[1])); s += 2; }
  return n;
}

static void pump_screen(int s) {
  int peers[MAXC]; vs_buf bufs[MAXC]; int i;
  for (i = 0; i < nconns; i++) { peers[i] = conns[i].peer; bufs[i] = conns[i].buf; }
  vs_pump(screens[s], nconns, peers, bufs);
  for (i = 0; i < nconns; i++) conns[i].buf = bufs[i];
}

static void obs(void) {
  int i; size_t j;
  printf("o err=0 unmod=0 in=%d", input_events);
  for (i = 0; i < nconns; i++) {
    conn_t *c = &conns[i];
    int st = (c->gone || !c->cl || c->cl->sock < 0) ? -1 : (int)c->cl->state;
    int vo = c->gone || !c->cl ? c->vo : (c->cl->viewOnly ? 1 : 0);
    printf(" | %d,%d,", st, vo);
    if (!c->next) printf("-");
    for (j = 0; j < (size_t)c->next; j++) printf("%s%d", j ? "." : "", c->ext[j]);
    printf(",");
    if (!c->buf.n) printf("-");
    for (j = 0; j < c->buf.n; j++) printf("%02x", c->buf.p[j]);
  }
  printf("\n");
}

static void do_screen(char **tok, int nt) {
  /* screen w h namehex none | list fvo pw... | file hex */
  int w = atoi(tok[1]), h = atoi(tok[2]);
  unsigned char nm[256]; size_t nn = unhex(tok[3], nm, 255);
  int argc = 0; rfbScreenInfoPtr s;
  if (nscreens >= MAXS) { printf("?? too many screens\n"); return; }
  s = rfbGetScreen(&argc, NULL, w, h, 8, 3, 4);
  s->frameBuffer = (char *)calloc((size_t)w * h, 4);
  s->port = 0; s->ipv6port = 0; s->autoPort = FALSE; s->httpPort = 0; s->http6Port = 0; s->httpDir = NULL;
  s->deferUpdateTime = 0;
  { char *n = (char *)malloc(nn + 1); memcpy(n, nm, nn); n[nn] = 0; s->desktopName = n; }
  if (!strcmp(tok[4], "list")) {
    int np = nt - 6, i;
    char **list = (char **)calloc((size_t)np + 1, sizeof(char *));
    for (i = 0; i < np; i++) {
      unsigned char pw[64]; size_t pn = unhex(tok[6 + i], pw, 63);
      list[i] = (char *)malloc(pn + 1); memcpy(list[i], pw, pn); list[i][pn] = 0;
    }
    s->authPasswdData = (void *)list;
    s->authPasswdFirstViewOnly = atoi(tok[5]);
    s->passwordCheck = rfbCheckPasswordByList;
  } else if (!strcmp(tok[4], "custom")) {
    s->authPasswdData = (void *)"custom"; s->passwordCheck = xor_check;
  } else if (!strcmp(tok[4], "file")) {
    unsigned char ct[64]; size_t cn = unhex(tok[5], ct, 64);
    char *fn = (char *)malloc(strlen(scratch) + 64);
    FILE *f;
    sprintf(fn, "%s/pw_%d_%d", scratch, (int)getpid(), nscreens);
    f = fopen(fn, "wb"); if (f) { fwrite(ct, 1, cn, f); fclose(f); }
    s->authPasswdData = (void *)fn;      /* default passwordCheck = rfbDefaultPasswordCheck */
  }
  s->kbdAddEvent = count_kbd; s->ptrAddEvent = count_ptr;
  rfbInitServer(s);
  screens[nscreens++] = s;
  obs();
}

static void do_conn(int s, int rev, int eof, const char *hx) {
  unsigned char b[2048]; size_t n = unhex(hx, b, sizeof b);
  int sv[2]; conn_t *c; rfbClientPtr cl;
  if (s < 0 || s >= nscreens || nconns >= MAXC) { printf("?? bad conn\n"); return; }
  if (socketpair(AF_UNIX, SOCK_STREAM, 0, sv) < 0) { printf("?? socketpair\n"); return; }
  fcntl(sv[1], F_SETFL, fcntl(sv[1], F_GETFL) | O_NONBLOCK);
  c = &conns[nconns++]; memset(c, 0, sizeof *c);
  c->peer = sv[1]; c->screen = s;
  if (n) vs_write(sv[1], b, n);
  if (eof) shutdown(sv[1], SHUT_WR);
  cl = rfbNewClient(screens[s], sv[0]);
  if (!cl) { c->gone = 1; }
  else {
    /* what rfbReverseConnection does after rfbNewClient (rfbConnect replaced by the socketpair) */
    if (rev) cl->reverseConnection = TRUE;
    cl->clientData = c; cl->clientGoneHook = gone_hook; c->cl = cl;
  }
  pump_screen(s);
  obs();
}

static void do_send(int ci, int eof, const char *hx) {
  unsigned char b[2048]; size_t n = unhex(hx, b, sizeof b);
  conn_t *c;
  if (ci < 0 || ci >= nconns) { printf("?? bad send\n"); return; }
  c = &conns[ci];
  if (n) vs_write(c->peer, b, n);
  if (eof) shutdown(c->peer, SHUT_WR);
  pump_screen(c->screen);
  obs();
}

static void run_case(char **lines, int nl) {
  int li;
  for (li = 0; li < nl; li++) {
    char *tok[64]; int nt = 0; char *p = strtok(lines[li], " \t\r\n");
    while (p && nt < 64) { tok[nt++] = p; p = strtok(NULL, " \t\r\n"); }
    if (!nt) continue;
    if (!strcmp(tok[0], "screen") && nt >= 5) do_screen(tok, nt);
    else if (!strcmp(tok[0], "reg") && nt == 2) { do_reg(atoi(tok[1]), 1); obs(); }
    else if (!strcmp(tok[0], "unreg") && nt == 2) { do_reg(atoi(tok[1]), 0); obs(); }
    else if (!strcmp(tok[0], "tight") && nt == 2) { tight_mode = atoi(tok[1]); obs(); }
    else if (!strcmp(tok[0], "types") && nt == 5) { int i; for (i = 0; i < NEXT; i++) exth[i].type = (uint8_t)atoi(tok[1 + i]); obs(); }
    else if (!strcmp(tok[0], "setfile") && nt == 3) {
      /* the password file of a screen is rewritten (rfbDefaultPasswordCheck reads it at every check) */
      int s = atoi(tok[1]); unsigned char ct[64]; size_t cn = unhex(tok[2], ct, 64);
      if (s >= 0 && s < nscreens && screens[s]->passwordCheck != rfbCheckPasswordByList && screens[s]->authPasswdData) {
        FILE *f = fopen((char *)screens[s]->authPasswdData, "wb"); if (f) { fwrite(ct, 1, cn, f); fclose(f); }
      }
      obs();
    }
    else if (!strcmp(tok[0], "udpon") && nt == 2) {
      /* what rfbInitSockets does for screen->udpPort != 0 (ephemeral port on the loopback interface) */
      int s = atoi(tok[1]);
      if (s >= 0 && s < nscreens && screens[s]->udpSock == RFB_INVALID_SOCKET) {
        rfbSocket u = rfbListenOnUDPPort(0, htonl(INADDR_LOOPBACK));
        if (u != RFB_INVALID_SOCKET) {
          struct sockaddr_in a; socklen_t al = sizeof a;
          getsockname(u, (struct sockaddr *)&a, &al);
          screens[s]->udpPort = ntohs(a.sin_port); udp_port[s] = screens[s]->udpPort;
          screens[s]->udpSock = u;
          FD_SET(u, &(screens[s]->allFds)); screens[s]->maxFd = rfbMax((int)u, screens[s]->maxFd);
        }
      }
      obs();
    }
    else if (!strcmp(tok[0], "udp") && nt == 3) {
      /* a datagram from a fresh, unauthenticated peer */
      int s = atoi(tok[1]); unsigned char b[64]; size_t n = unhex(tok[2], b, sizeof b);
      if (s >= 0 && s < nscreens && udp_port[s]) {
        int u; struct sockaddr_in a; memset(&a, 0, sizeof a);
        /* one peer per screen: the library connect()s its UDP socket to the first peer it hears from */
        if (!udp_peer[s]) udp_peer[s] = socket(AF_INET, SOCK_DGRAM, 0);
        u = udp_peer[s];
        a.sin_family = AF_INET; a.sin_port = htons(udp_port[s]); a.sin_addr.s_addr = htonl(INADDR_LOOPBACK);
        sendto(u, b, n, 0, (struct sockaddr *)&a, sizeof a);
        { struct pollfd pf = { screens[s]->udpSock, POLLIN, 0 }; poll(&pf, 1, 200); }
        pump_screen(s);
      }
      obs();
    }
    else if (!strcmp(tok[0], "encfail") && nt == 2) { enc_fail = atoi(tok[1]); obs(); }
    else if (!strcmp(tok[0], "setlist") && nt >= 3) {
      /* the application replaces authPasswdData / authPasswdFirstViewOnly of a password-list screen */
      int s = atoi(tok[1]);
      if (s >= 0 && s < nscreens && screens[s]->passwordCheck == rfbCheckPasswordByList) {
        screens[s]->authPasswdData = (void *)make_list(tok + 3, nt - 3);
        screens[s]->authPasswdFirstViewOnly = atoi(tok[2]);
      }
      obs();
    }
    else if (!strcmp(tok[0], "rand") && nt == 2) { randn += unhex(tok[1], randq + randn, sizeof randq - randn); obs(); }
    else if (!strcmp(tok[0], "conn") && nt == 5) do_conn(atoi(tok[1]), atoi(tok[2]), atoi(tok[3]), tok[4]);
    else if (!strcmp(tok[0], "send") && nt == 4) do_send(atoi(tok[1]), atoi(tok[2]), tok[3]);
    else if (!strcmp(tok[0], "des") && nt == 3) {
      unsigned char pw[64], blk[64]; size_t pn = unhex(tok[1], pw, 63), bn = unhex(tok[2], blk, 64), j;
      pw[pn] = 0;
      if (bn == 16) rfbEncryptBytes(blk, (char *)pw);
      printf("des "); for (j = 0; j < bn; j++) printf("%02x", blk[j]); printf("\n");
    }
    else printf("?? %s\n", tok[0]);
    fflush(stdout);
  }
}

int main(int argc, char **argv) {
  static char *lines[4096]; int nl = 0; char line[8192]; int have = 0, eofin = 0;
  char pending[8192]; pending[0] = 0;
  if (argc > 1) scratch = argv[1];
  signal(SIGPIPE, SIG_IGN);
  vs_quiet();
  rfbMaxClientWait = 30;     /* an incomplete message times out quickly */
  while (!eofin) {
    /* collect one case */
    nl = 0; have = 0;
    if (pending[0]) { fputs(pending, stdout); if (pending[strlen(pending) - 1] != '\n') putchar('\n'); have = 1; pending[0] = 0; }
    for (;;) {
      if (!fgets(line, sizeof line, stdin)) { eofin = 1; break; }
      if (!strncmp(line, "case ", 5)) {
        if (have) { strcpy(pending, line); break; }
        fputs(line, stdout); if (line[strlen(line) - 1] != '\n') putchar('\n'); have = 1; continue;
      }
      if (have && nl < 4096) lines[nl++] = strdup(line);
    }
    if (have) {
      pid_t pid; int status = 0, i;
      fflush(stdout);
      pid = fork();
      if (pid == 0) { run_case(lines, nl); fflush(stdout); _exit(0); }
      waitpid(pid, &status, 0);
      if (!(WIFEXITED(status) && WEXITSTATUS(status) == 0))
        printf("x crashed status=%d\n", WIFSIGNALED(status) ? 1000 + WTERMSIG(status) : WEXITSTATUS(status));
      fflush(stdout);
      for (i = 0; i < nl; i++) free(lines[i]);
    }
  }
  return 0;
}
