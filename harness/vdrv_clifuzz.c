/* vdrv_clifuzz.c - C08 harness: the same script language as vdrv_client.c, but
 *   - every case runs in a forked child: a sanitizer report, a signal or a hang of one case does not
 *     lose the others; the parent prints, after the child's own output, exactly one line
 *        "verdict ok" | "verdict asan <kind> <READ|WRITE|-> <function> <file:line>" |
 *        "verdict signal <n>" | "verdict exit <rc>" | "verdict timeout"
 *   - the framebuffer is allocated by the harness between two 4 MiB POISONED guard bands, so that a
 *     stray access far away from the buffer is reported too (not only the allocator's red zones);
 *   - a watchdog (per-case wall clock limit, argv[1] seconds, default 10) catches wedged calls: the
 *     interposed read() never blocks, so any call that does not return is spinning.
 */
#define VDRV_GUARD 1
#include "vdrv_client_core.h"
#include <signal.h>
#include <sys/wait.h>
#include <sys/time.h>
#include <time.h>

static char **g_lines; static size_t g_nlines, g_caplines;
static void add_line(const char *s) {
  if (g_nlines == g_caplines) { g_caplines = g_caplines * 2 + 64; g_lines = realloc(g_lines, g_caplines * sizeof(char *)); }
  g_lines[g_nlines++] = strdup(s);
}

static void summarize_asan(const char *txt, char *out, size_t cap) {
  const char *e = strstr(txt, "ERROR: AddressSanitizer: ");
  char kind[64] = "-", rw[16] = "-", fn[200] = "-", loc[320] = "-";
  if (!e) { snprintf(out, cap, "asan ? - - -"); return; }
  sscanf(e + 25, "%63s", kind);
  if (!strcmp(kind, "attempting")) {          /* "attempting double-free on ...", "attempting free on address which was not malloc()-ed" */
    strcpy(kind, strstr(e, "attempting double-free") ? "double-free" : "bad-free");
  }
  { const char *r = strstr(e, "\nREAD of size"); const char *w = strstr(e, "\nWRITE of size");
    if (w && (!r || w < r)) strcpy(rw, "WRITE"); else if (r) strcpy(rw, "READ");
    else if (strstr(e, "caused by a WRITE memory access")) strcpy(rw, "WRITE");
    else if (strstr(e, "caused by a READ memory access")) strcpy(rw, "READ"); }
  { /* the first two frames inside the library (libvncclient or common) */
    const char *p = e; int nf = 0; char acc_fn[200] = "", acc_loc[320] = "";
    while (nf < 2 && (p = strstr(p, " in ")) != NULL) {
      char f[96] = "", l[160] = "";
      if (sscanf(p + 4, "%95s %159s", f, l) == 2) {
        const char *s = strstr(l, "src/libvncclient/"); if (!s) s = strstr(l, "src/common/");
        if (s) { if (nf) { strcat(acc_fn, "<"); strcat(acc_loc, "<"); } strncat(acc_fn, f, 90); strncat(acc_loc, s, 150); nf++; }
      }
      p += 4;
    }
    if (nf) { snprintf(fn, sizeof fn, "%s", acc_fn); snprintf(loc, sizeof loc, "%s", acc_loc); } }
  snprintf(out, cap, "asan %s %s %s %s", kind, rw, fn, loc);
}

static void run_case(int limit_s) {
  int pe[2]; size_t i;
  if (!g_nlines) return;
  fflush(stdout);
  if (pipe(pe) < 0) { perror("pipe"); exit(3); }
  pid_t pid = fork();
  if (pid == 0) {
    close(pe[0]); dup2(pe[1], 2); close(pe[1]);
    for (i = 0; i < g_nlines; i++) do_line(g_lines[i]);
    fflush(stdout);
    _exit(0);
  }
  close(pe[1]);
  /* collect stderr (bounded) while waiting */
  static char errbuf[1 << 16]; size_t en = 0; int status = 0, done = 0, timed_out = 0;
  fcntl(pe[0], F_SETFL, fcntl(pe[0], F_GETFL) | O_NONBLOCK);
  struct timespec t0; clock_gettime(CLOCK_MONOTONIC, &t0);
  while (!done) {
    ssize_t k = __real_read(pe[0], errbuf + en, sizeof errbuf - 1 - en);
    if (k > 0) en += (size_t)k;
    pid_t r = waitpid(pid, &status, WNOHANG);
    if (r == pid) { done = 1; break; }
    struct timespec t1; clock_gettime(CLOCK_MONOTONIC, &t1);
    if (t1.tv_sec - t0.tv_sec >= limit_s) { kill(pid, SIGKILL); waitpid(pid, &status, 0); timed_out = 1; done = 1; break; }
    if (k <= 0) { struct timespec ts = {0, 2000000}; nanosleep(&ts, NULL); }
  }
  for (;;) { ssize_t k = __real_read(pe[0], errbuf + en, sizeof errbuf - 1 - en); if (k <= 0) break; en += (size_t)k; }
  errbuf[en] = 0; close(pe[0]);
  if (getenv("VDRV_SHOWERR")) fprintf(stderr, "%s\n", errbuf);      /* debugging aid: the child's stderr */
  /* a child that dies may leave an unterminated partial line behind: the verdict starts on a line of its own */
  printf("\n");
  if (timed_out) printf("verdict timeout\n");
  else if (strstr(errbuf, "ERROR: AddressSanitizer")) { char s[700]; summarize_asan(errbuf, s, sizeof s); printf("verdict %s\n", s); }
  else if (WIFSIGNALED(status)) {
    /* a library that aborts says why on stderr: keep the last line as part of the verdict */
    char why[64] = ""; size_t L = strlen(errbuf), a, b, k = 0;
    while (L && (errbuf[L - 1] == '\n' || errbuf[L - 1] == ' ')) L--;
    a = L; while (a && errbuf[a - 1] != '\n') a--;
    for (b = a; b < L && k < sizeof why - 1; b++) why[k++] = (errbuf[b] == ' ') ? '_' : errbuf[b];
    why[k] = 0;
    printf("verdict signal %d %s\n", WTERMSIG(status), why);
  }
  else if (WIFEXITED(status) && WEXITSTATUS(status) != 0) printf("verdict exit %d\n", WEXITSTATUS(status));
  else printf("verdict ok\n");
  fflush(stdout);
  for (i = 0; i < g_nlines; i++) free(g_lines[i]);
  g_nlines = 0;
}

int main(int argc, char **argv) {
  static char line[1 << 22];
  int limit = argc > 1 ? atoi(argv[1]) : 10;
  if (limit <= 0) limit = 10;
  harness_setup();
  while (fgets(line, sizeof line, stdin)) {
    if (!strncmp(line, "case ", 5)) run_case(limit);
    add_line(line);
  }
  run_case(limit);
  return 0;
}
