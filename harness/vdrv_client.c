/* vdrv_client.c - C07 harness: the real LibVNCClient driven from a token script (see vdrv_client_core.h
 * for the script language and the output format). */
#define VDRV_LIVE 1   /* also links libvncserver: pairing with this repository's own server */
#include "vdrv_client_core.h"

int main(void) {
  static char line[1 << 22];
  harness_setup();
  while (fgets(line, sizeof line, stdin)) do_line(line);
  drop_client();
  live_close();
  return 0;
}
