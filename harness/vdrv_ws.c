/* vdrv_ws.c - C09 correspondence harness: executes a WebSocket script against the real
 * library (static ASan build of /repo) and prints one canonical observation line per op,
 * in the same format as ocaml/driver_C09.ml.
 *
 * ops (one per line, cases start with "case <n> ..."):
 *   ctx                    fresh decoder context (hybiDecodeCleanupComplete)
 *   stream <hex>           append bytes to the peer's byte stream ("-" = nothing)
 *   sched <items...>       append reader events: <k> = k bytes become available to the next
 *                          read call, a = EAGAIN, e = EOF (read returns 0), x = ECONNRESET error
 *   dec <len>              one call of webSocketsDecodeHybi(ctx, dst, len)
 *   enc <b64> <hex>        webSocketsEncode (-> webSocketsEncodeHybi) on a context with base64=<b64>
 *   wr <b64> <hex>         rfbWriteExact over a socketpair on a WebSocket client (chunking)
 *   b64e <targsize> <hex>  rfbBase64NtoP
 *   b64d <targsize> <hex>  rfbBase64PtoN(src, separate target, targsize); src = bytes + NUL
 *   b64i <targsize> <hex>  rfbBase64PtoN(src, src, targsize)   (in place, as the decoder does)
 *   sha1 <hex>             hash_sha1
 *   hs <hex>               webSocketsCheck() on a socketpair fed with the request bytes, then EOF
 *   hst <hex>              the same, but the peer stays silent after the bytes (the reads time out)
 *   sched item i = read() fails with EINTR
 *   sess <tcp|wsbin|wsb64|wsrawbin|wsrawb64> <hexC> <frames> <sched>      (application-driven rfbProcessEvents loop)
 *   sesst ... same arguments, against the THREADED server (rfbRunEventLoop(screen,-1,TRUE), clientInput thread);
 *                          the client then stays quiet and the harness waits (bounded) for the callback log
 *                          (wsraw*: hexC is the wire image after the HTTP request, frames = '-')
 *                          a complete server session on a socketpair: RFB client bytes C sent plain or
 *                          wrapped in WebSocket frames (<frames>: payload sizes, 'n+' = FIN clear, 'pK' = ping
 *                          with K bytes, '-' = one frame), server-side read() segmented by <sched>
 *                          (k / a, '-' = none) through the read wrap; prints the input-callback log and the
 *                          RFB-level bytes the server sent
 *
 * The reader callback is the harness' own (the decoder's read-callback interface, as
 * test/wstest.c uses it); it refuses to write outside codeBufDecode and reports FAULT instead.
 */
#include <rfb/rfb.h>
#include <stdio.h>
#include <stdlib.h>
#include <string.h>
#include <stdint.h>
#include <errno.h>
#include <unistd.h>
#include <fcntl.h>
#include <sys/socket.h>
#include <stdarg.h>
#include <signal.h>
#include <time.h>
#include <sys/ioctl.h>
#include "ws_decode.h"
#include "base64.h"
#include "crypto.h"

extern int webSocketsEncode(rfbClientPtr cl, const char *src, int len, char **dst);
extern rfbBool webSocketsCheck(rfbClientPtr cl);

static void nolog(const char *fmt, ...) { (void)fmt; }

typedef struct { int kind; long k; } ev_t;     /* kind: 0 avail k, 1 EAGAIN, 2 EOF, 3 error */

static ws_ctx_t *g_ctx;
static unsigned char *g_stream; static size_t g_slen, g_scap, g_spos;
static ev_t *g_ev; static size_t g_nev, g_evcap, g_evpos;
static int g_fault;
static char g_rq[4096]; static size_t g_rqlen;

static void rq_add(const char *s) {
  size_t n = strlen(s);
  if (g_rqlen + n + 2 < sizeof g_rq) { if (g_rqlen) g_rq[g_rqlen++] = ','; memcpy(g_rq + g_rqlen, s, n); g_rqlen += n; g_rq[g_rqlen] = 0; }
}

static int emu_read(void *ctxp, char *dst, size_t len) {
  char t[96];
  ev_t e; size_t avail, nret;
  (void)ctxp;
  long long off = (long long)((unsigned char *)dst - (unsigned char *)g_ctx->codeBufDecode);
  if (g_fault) { errno = EFAULT; return -1; }
  if (g_evpos < g_nev) e = g_ev[g_evpos++]; else { e.kind = 1; e.k = 0; }
  if (e.kind == 1) { snprintf(t, sizeof t, "%lld:%llu:a", off, (unsigned long long)len); rq_add(t); errno = EAGAIN; return -1; }
  if (e.kind == 2) { snprintf(t, sizeof t, "%lld:%llu:e", off, (unsigned long long)len); rq_add(t); return 0; }
  if (e.kind == 3) { snprintf(t, sizeof t, "%lld:%llu:x", off, (unsigned long long)len); rq_add(t); errno = ECONNRESET; return -1; }
  if (e.kind == 4) { snprintf(t, sizeof t, "%lld:%llu:i", off, (unsigned long long)len); rq_add(t); errno = EINTR; return -1; }
  avail = g_slen - g_spos;
  nret = (size_t)e.k; if (nret > avail) nret = avail; if (nret > len) nret = len;
  if (nret == 0) {
    if (len == 0) { snprintf(t, sizeof t, "%lld:0:0", off); rq_add(t); return 0; }     /* read(fd,buf,0) = 0 */
    snprintf(t, sizeof t, "%lld:%llu:a", off, (unsigned long long)len); rq_add(t); errno = EAGAIN; return -1;
  }
  snprintf(t, sizeof t, "%lld:%llu:%llu", off, (unsigned long long)len, (unsigned long long)nret); rq_add(t);
  if ((unsigned char *)dst < (unsigned char *)g_ctx->codeBufDecode ||
      (unsigned char *)dst + nret > (unsigned char *)g_ctx->codeBufDecode + sizeof(g_ctx->codeBufDecode)) {
    g_fault = 1; errno = EFAULT; return -1;
  }
  memcpy(dst, g_stream + g_spos, nret);
  g_spos += nret;
  return (int)nret;
}

static int hexval(int c) { if (c >= '0' && c <= '9') return c - '0'; if (c >= 'a' && c <= 'f') return c - 'a' + 10; if (c >= 'A' && c <= 'F') return c - 'A' + 10; return -1; }
static size_t unhex(const char *s, unsigned char **out) {
  size_t n = strlen(s), i, k = 0; unsigned char *p = (unsigned char *)malloc(n / 2 + 2);
  if (s[0] == '-') { *out = p; return 0; }
  for (i = 0; i + 1 < n; i += 2) { int a = hexval(s[i]), b = hexval(s[i + 1]); if (a < 0 || b < 0) break; p[k++] = (unsigned char)(a * 16 + b); }
  *out = p; return k;
}
static void puthex(const unsigned char *p, size_t n) {
  static const char *d = "0123456789abcdef"; size_t i;
  if (n == 0) { putchar('-'); return; }
  for (i = 0; i < n; i++) { putchar(d[p[i] >> 4]); putchar(d[p[i] & 15]); }
}
static const char *errname(int e) {
  static char t[32];
  if (e == EAGAIN) return "EAGAIN"; if (e == EPROTO) return "EPROTO"; if (e == ECONNRESET) return "ECONNRESET";
  if (e == EIO) return "EIO"; if (e == EFAULT) return "EFAULT"; if (e == EINTR) return "EINTR";
  snprintf(t, sizeof t, "E%d", e); return t;
}

static void new_ctx(void) {
  if (g_ctx) free(g_ctx);
  g_ctx = (ws_ctx_t *)calloc(1, sizeof(ws_ctx_t));
  hybiDecodeCleanupComplete(g_ctx);
  g_ctx->decode = webSocketsDecodeHybi;
  g_ctx->ctxInfo.readFunc = emu_read;
  g_ctx->ctxInfo.ctxPtr = NULL;
  g_slen = g_spos = 0; g_nev = g_evpos = 0; g_fault = 0;
}

static rfbClientPtr fake_client(int sock, int b64) {
  rfbClientPtr cl = (rfbClientPtr)calloc(1, sizeof(rfbClientRec));
  ws_ctx_t *w = (ws_ctx_t *)calloc(1, sizeof(ws_ctx_t));
  hybiDecodeCleanupComplete(w);
  w->base64 = b64;
  cl->sock = sock; cl->wsctx = (wsCtx *)w;
#ifdef LIBVNCSERVER_HAVE_LIBPTHREAD
  INIT_MUTEX(cl->outputMutex);
#endif
  return cl;
}
static void big_bufs(int *sv) {
  int sz = 8 << 20, i;
  for (i = 0; i < 2; i++) { setsockopt(sv[i], SOL_SOCKET, SO_SNDBUF, &sz, sizeof sz); setsockopt(sv[i], SOL_SOCKET, SO_RCVBUF, &sz, sizeof sz); }
}
static size_t drain(int fd, unsigned char **out) {
  size_t cap = 1 << 16, n = 0; unsigned char *p = (unsigned char *)malloc(cap);
  fcntl(fd, F_SETFL, fcntl(fd, F_GETFL) | O_NONBLOCK);
  for (;;) {
    ssize_t k;
    if (n + 65536 > cap) { cap *= 2; p = (unsigned char *)realloc(p, cap); }
    k = read(fd, p + n, 65536);
    if (k > 0) { n += (size_t)k; continue; }
    break;
  }
  *out = p; return n;
}

/* ------------------------------------------------------------------ full server session */
#include "vsess.h"
extern ssize_t __real_read(int fd, void *buf, size_t n);
static int g_wrap_fd = -1;
static ev_t *g_sev; static size_t g_nsev, g_sevpos;
ssize_t __wrap_read(int fd, void *buf, size_t n) {
  if (fd == g_wrap_fd && g_sevpos < g_nsev) {
    ev_t e = g_sev[g_sevpos++];
    if (e.kind == 1) { errno = EAGAIN; return -1; }
    if (e.kind == 0 && e.k > 0 && (size_t)e.k < n) n = (size_t)e.k;
  }
  return __real_read(fd, buf, n);
}
#include <pthread.h>
static vs_buf g_cb;
static pthread_mutex_t g_cb_mtx = PTHREAD_MUTEX_INITIALIZER;
static void cb_add(const char *fmt, ...) {
  char t[128]; va_list ap; int k;
  va_start(ap, fmt); k = vsnprintf(t, sizeof t, fmt, ap); va_end(ap);
  pthread_mutex_lock(&g_cb_mtx);
  vs_buf_add(&g_cb, (unsigned char *)t, (size_t)k);
  pthread_mutex_unlock(&g_cb_mtx);
}
static size_t cb_len(void) { size_t n; pthread_mutex_lock(&g_cb_mtx); n = g_cb.n; pthread_mutex_unlock(&g_cb_mtx); return n; }
static void cb_kbd(rfbBool down, rfbKeySym key, rfbClientPtr cl) { (void)cl; cb_add("K%d:%x;", down, (unsigned)key); }
static void cb_ptr(int mask, int x, int y, rfbClientPtr cl) { (void)cl; cb_add("P%d:%d:%d;", mask, x, y); }
static void cb_cut(char *str, int len, rfbClientPtr cl) { int i; (void)cl; cb_add("C%d:", len); for (i = 0; i < len; i++) cb_add("%02x", (unsigned char)str[i]); cb_add(";"); }
static uint32_t g_lcg = 12345;
static unsigned char lcg_byte(void) { g_lcg = g_lcg * 1103515245u + 12345u; return (unsigned char)(g_lcg >> 16); }

static void put_frame(vs_buf *w, int op, int fin, const unsigned char *pl, size_t n) {
  unsigned char h[14], m[4], *t; size_t hl = 2, i;
  h[0] = (unsigned char)((fin ? 0x80 : 0) | op);
  if (n < 126) h[1] = (unsigned char)(0x80 | n);
  else if (n < 65536) { h[1] = 0x80 | 126; h[2] = (unsigned char)(n >> 8); h[3] = (unsigned char)n; hl = 4; }
  else { h[1] = 0x80 | 127; for (i = 0; i < 8; i++) h[2 + i] = (unsigned char)((uint64_t)n >> (56 - 8 * i)); hl = 10; }
  for (i = 0; i < 4; i++) m[i] = lcg_byte();
  vs_buf_add(w, h, hl); vs_buf_add(w, m, 4);
  t = (unsigned char *)malloc(n + 1);
  for (i = 0; i < n; i++) t[i] = pl[i] ^ m[i & 3];
  vs_buf_add(w, t, n); free(t);
}

/* unwrap the server's frames; returns 1 if the byte string is a sequence of valid unmasked final frames */
static int unwrap(const unsigned char *p, size_t n, int b64, vs_buf *out) {
  size_t pos = 0;
  while (pos < n) {
    size_t hl = 2; uint64_t len; unsigned char b0, b1;
    if (pos + 2 > n) return 0;
    b0 = p[pos]; b1 = p[pos + 1];
    if (b0 != (0x80 | (b64 ? 1 : 2)) || (b1 & 0x80)) return 0;
    len = b1 & 0x7f;
    if (len == 126) { if (pos + 4 > n) return 0; len = ((uint64_t)p[pos + 2] << 8) | p[pos + 3]; hl = 4; if (len < 126) return 0; }
    else if (len == 127) return 0;
    if (pos + hl + len > n) return 0;
    if (b64) {
      unsigned char *t = (unsigned char *)malloc(len + 4); char *src = (char *)malloc(len + 1); int k;
      memcpy(src, p + pos + hl, len); src[len] = 0;
      k = rfbBase64PtoN(src, t, len + 3);
      if (k < 0) { free(t); free(src); return 0; }
      vs_buf_add(out, t, (size_t)k); free(t); free(src);
    } else vs_buf_add(out, p + pos + hl, len);
    pos += hl + len;
  }
  return 1;
}

static char g_opname[16] = "?";
static void on_alarm(int sig) {
  /* watchdog: every op that enters the library must return; otherwise report and end this driver */
  char m[96]; int k;
  (void)sig; fflush(stdout);
  k = snprintf(m, sizeof m, "%s WEDGE the library did not return within the watchdog time\n", g_opname);
  if (write(1, m, (size_t)k) < 0) {}
  _exit(3);
}

static void do_sess(char *arg, int threaded) {
  char *mode = strtok(arg, " "), *hexC = strtok(NULL, " "), *frames = strtok(NULL, " "), *sched = strtok(NULL, " ");
  int ws = mode && mode[0] == 'w', raw = mode && !strncmp(mode, "wsraw", 5);
  int b64 = mode && (!strcmp(mode, "wsb64") || !strcmp(mode, "wsrawb64"));
  unsigned char *C; size_t nC, pos = 0; vs_buf wire = {0}, srv = {0}, rfbout = {0};
  int sv[2], alive, frames_ok = 1, hs_ok = 0; rfbScreenInfoPtr s; rfbClientPtr cl; size_t hdr_end = 0;
  static const char *req_bin = "GET /websockify HTTP/1.1\r\nHost: h\r\nUpgrade: websocket\r\nConnection: Upgrade\r\n"
    "Sec-WebSocket-Key: dGhlIHNhbXBsZSBub25jZQ==\r\nOrigin: http://h\r\nSec-WebSocket-Protocol: %s\r\nSec-WebSocket-Version: 13\r\n\r\n";
  char req[512];
  if (!mode || !hexC || !frames || !sched) { printf("sess ?\n"); return; }
  nC = unhex(hexC, &C);
  g_lcg = 12345; g_cb.n = 0;
  s = vs_screen(16, 16, 4);
  s->kbdAddEvent = cb_kbd; s->ptrAddEvent = cb_ptr; s->setXCutText = cb_cut;
  s->maxClientWait = 300;
  { int i; for (i = 0; i < 16 * 16 * 4; i++) s->frameBuffer[i] = (char)(i * 7); }
  socketpair(AF_UNIX, SOCK_STREAM, 0, sv); big_bufs(sv);
  fcntl(sv[1], F_SETFL, fcntl(sv[1], F_GETFL) | O_NONBLOCK);
  /* wire bytes of the whole client side */
  if (ws) {
    snprintf(req, sizeof req, req_bin, b64 ? "base64" : "binary");
    vs_buf_add(&wire, (unsigned char *)req, strlen(req));
    if (raw) vs_buf_add(&wire, C, nC);      /* C is the wire image itself (frames built by the generator) */
    else {
      char *tok = strtok(frames, ","); int cont = 0;
      while (pos < nC || (tok && tok[0] == 'p')) {
        size_t n; int fin = 1, ping = 0;
        if (tok && tok[0] != '-') {
          if (tok[0] == 'p') { ping = 1; n = (size_t)atol(tok + 1); }
          else { n = (size_t)atol(tok); if (tok[strlen(tok) - 1] == '+') fin = 0; }
          tok = strtok(NULL, ",");
        } else n = nC - pos;
        if (ping) { unsigned char pp[125]; size_t i; if (n > 125) n = 125; for (i = 0; i < n; i++) pp[i] = lcg_byte(); put_frame(&wire, 9, 1, pp, n); continue; }
        if (n > nC - pos) n = nC - pos;
        if (pos + n >= nC) fin = 1;
        if (b64) {
          char *t = (char *)malloc(n * 2 + 8); int k = rfbBase64NtoP(C + pos, n, t, n * 2 + 8);
          put_frame(&wire, cont ? 0 : 1, fin, (unsigned char *)t, (size_t)(k > 0 ? k : 0)); free(t);
        } else put_frame(&wire, cont ? 0 : 2, fin, C + pos, n);
        cont = !fin; pos += n;
        if (n == 0 && !tok) break;
      }
    }
  } else vs_buf_add(&wire, C, nC);
  vs_write(sv[1], wire.p, wire.n);
  /* server-side read segmentation */
  g_nsev = 0; g_sevpos = 0;
  { char *tok = strtok(sched, ",");
    while (tok && tok[0] != '-') {
      ev_t e; e.k = 0; e.kind = tok[0] == 'a' ? 1 : 0; if (!e.kind) e.k = atol(tok);
      g_sev = (ev_t *)realloc(g_sev, (g_nsev + 1) * sizeof(ev_t)); g_sev[g_nsev++] = e; tok = strtok(NULL, ","); } }
  alarm(6);                        /* watchdog: rfbProcessEvents must return */
  if (threaded) rfbRunEventLoop(s, -1, TRUE);   /* threaded server: listener thread + one input thread per client */
  cl = rfbNewClient(s, sv[0]);     /* the HTTP upgrade request is read here, unsegmented */
  g_wrap_fd = sv[0];               /* the read schedule applies to the RFB / frame bytes */
  if (cl && threaded) {
    /* the client's input thread (clientInput) does all the work; then the client stays quiet: wait (bounded)
       until nothing has moved for 200 ms */
    int idle = 0, rounds = 0;
    rfbStartOnHoldClient(cl);
    while (idle < 20 && rounds < 500) {
      size_t before = srv.n, cbefore = cb_len(); int avail = 0; struct timespec ts = { 0, 10 * 1000 * 1000 };
      nanosleep(&ts, NULL);
      vs_drain(sv[1], &srv);
      if (ioctl(sv[0], FIONREAD, &avail) < 0) break;
      if (avail == 0 && srv.n == before && cb_len() == cbefore) idle++; else idle = 0;
      rounds++;
    }
  } else if (cl) {
    /* pump until the server has consumed everything that was sent (rfbProcessEvents does not report
       input-only progress, so idleness is judged by the bytes still unread on the server's socket) */
    int idle = 0, rounds = 0;
    while (idle < 3 && rounds < 200000) {
      size_t before = srv.n; int avail = 0; rfbClientIteratorPtr it; int there;
      rfbProcessEvents(s, 0);
      vs_drain(sv[1], &srv);
      it = rfbGetClientIterator(s); there = rfbClientIteratorNext(it) != NULL; rfbReleaseClientIterator(it);
      if (!there) break;
      if (ioctl(sv[0], FIONREAD, &avail) < 0) break;
      if (avail == 0 && srv.n == before) idle++; else idle = 0;
      rounds++;
    }
  }
  g_wrap_fd = -1;
  alarm(8);                        /* keep watching the teardown */
  alive = 0;
  { rfbClientIteratorPtr it = rfbGetClientIterator(s); alive = rfbClientIteratorNext(it) != NULL; rfbReleaseClientIterator(it); }
  if (ws) {
    /* the HTTP answer ends with an empty line */
    size_t i; for (i = 0; i + 3 < srv.n; i++) if (!memcmp(srv.p + i, "\r\n\r\n", 4)) { hdr_end = i + 4; hs_ok = !memcmp(srv.p, "HTTP/1.1 101", 12); break; }
    frames_ok = hs_ok && unwrap(srv.p + hdr_end, srv.n - hdr_end, b64, &rfbout);
  } else { hs_ok = 1; vs_buf_add(&rfbout, srv.p, srv.n); }
  printf("%s hs=%d frames_ok=%d alive=%d cb=", threaded ? "sesst" : "sess", hs_ok, frames_ok, alive); puthex(g_cb.p, cb_len());
  printf(" out="); puthex(rfbout.p, rfbout.n); printf("\n");
  close(sv[1]);
  if (threaded) {
    int k;
    for (k = 0; k < 200; k++) {                 /* the input thread notices the EOF and reaps the client */
      rfbClientIteratorPtr it = rfbGetClientIterator(s); int there = rfbClientIteratorNext(it) != NULL; struct timespec ts = { 0, 5 * 1000 * 1000 };
      rfbReleaseClientIterator(it); if (!there) break; nanosleep(&ts, NULL);
    }
    rfbShutdownServer(s, TRUE);
  } else vs_pump(s, 0, NULL, NULL);
  rfbScreenCleanup(s);
  free(C); free(wire.p); free(srv.p); free(rfbout.p);
}

int main(void) {
  char *line = NULL; size_t cap = 0; ssize_t ll;
  rfbLog = nolog; rfbErr = nolog;
  signal(SIGALRM, on_alarm);
  new_ctx();
  while ((ll = getline(&line, &cap, stdin)) > 0) {
    char *arg;
    while (ll > 0 && (line[ll - 1] == '\n' || line[ll - 1] == '\r')) line[--ll] = 0;
    if (ll == 0) continue;
    if (!strncmp(line, "case ", 5)) { new_ctx(); printf("%s\n", line); continue; }
    arg = strchr(line, ' '); if (arg) *arg++ = 0; else arg = line + ll;
    snprintf(g_opname, sizeof g_opname, "%s", line);
    alarm(8);                       /* per-op watchdog (sess re-arms its own) */
    if (!strcmp(line, "ctx")) { new_ctx(); printf("ctx\n"); }
    else if (!strcmp(line, "stream")) {
      unsigned char *b; size_t n = unhex(arg, &b);
      if (g_slen + n > g_scap) { g_scap = (g_slen + n) * 2 + 64; g_stream = (unsigned char *)realloc(g_stream, g_scap); }
      memcpy(g_stream + g_slen, b, n); g_slen += n; free(b);
      printf("stream %zu\n", g_slen);
    }
    else if (!strcmp(line, "sched")) {
      char *tok = strtok(arg, " ");
      while (tok) {
        ev_t e; e.k = 0;
        if (tok[0] == 'a') e.kind = 1; else if (tok[0] == 'e') e.kind = 2; else if (tok[0] == 'x') e.kind = 3; else if (tok[0] == 'i') e.kind = 4;
        else { e.kind = 0; e.k = atol(tok); }
        if (g_nev + 1 > g_evcap) { g_evcap = g_evcap * 2 + 64; g_ev = (ev_t *)realloc(g_ev, g_evcap * sizeof(ev_t)); }
        g_ev[g_nev++] = e;
        tok = strtok(NULL, " ");
      }
      printf("sched %zu\n", g_nev);
    }
    else if (!strcmp(line, "dec")) {
      int len = atoi(arg), ret, e;
      char *dst;
      if (g_fault) { printf("dec FAULT\n"); alarm(0); continue; }
      dst = (char *)malloc((size_t)(len > 0 ? len : 0) + 1);
      g_rqlen = 0; g_rq[0] = 0;
      errno = 0;
      ret = webSocketsDecodeHybi(g_ctx, dst, len);
      e = errno;
      if (g_fault) { printf("dec FAULT\n"); free(dst); continue; }
      printf("dec ret=%d err=%s data=", ret, ret < 0 ? errname(e) : "-");
      puthex((unsigned char *)dst, ret > 0 ? (size_t)ret : 0);
      printf(" st=%d nread=%d rl=%d cl=%d cont=%d left=%zu rq=%s\n", g_ctx->hybiDecodeState, g_ctx->header.nRead,
             g_ctx->readlen, g_ctx->carrylen, (int)g_ctx->continuation_opcode, g_slen - g_spos, g_rqlen ? g_rq : "-");
      free(dst);
    }
    else if (!strcmp(line, "enc")) {
      int b64 = atoi(arg); char *h = strchr(arg, ' '); unsigned char *b; size_t n; int ret; char *out = NULL;
      rfbClientPtr cl = fake_client(-1, b64);
      n = unhex(h ? h + 1 : "-", &b);
      ret = webSocketsEncode(cl, (char *)b, (int)n, &out);
      printf("enc ret=%d out=", ret); puthex((unsigned char *)out, ret > 0 ? (size_t)ret : 0); printf("\n");
      free(b); free(cl->wsctx); free(cl);
    }
    else if (!strcmp(line, "wr")) {
      int b64 = atoi(arg); char *h = strchr(arg, ' '); unsigned char *b, *o; size_t n, m; int ret, sv[2];
      rfbClientPtr cl;
      socketpair(AF_UNIX, SOCK_STREAM, 0, sv); big_bufs(sv);
      cl = fake_client(sv[0], b64);
      n = unhex(h ? h + 1 : "-", &b);
      ret = rfbWriteExact(cl, (char *)b, (int)n);
      m = drain(sv[1], &o);
      printf("wr ret=%d out=", ret); puthex(o, m); printf("\n");
      free(o); free(b); free(cl->wsctx); free(cl); close(sv[0]); close(sv[1]);
    }
    else if (!strcmp(line, "b64e")) {
      long ts = atol(arg); char *h = strchr(arg, ' '); unsigned char *b; size_t n; int ret;
      char *t = (char *)malloc((size_t)ts + 1);
      n = unhex(h ? h + 1 : "-", &b);
      ret = rfbBase64NtoP(b, n, t, (size_t)ts);
      printf("b64e ret=%d out=", ret); puthex((unsigned char *)t, ret > 0 ? (size_t)ret : 0); printf("\n");
      free(b); free(t);
    }
    else if (!strcmp(line, "b64d") || !strcmp(line, "b64i")) {
      int inplace = line[3] == 'i';
      long ts = atol(arg); char *h = strchr(arg, ' '); unsigned char *b, *t; size_t n; int ret;
      n = unhex(h ? h + 1 : "-", &b); b[n] = 0;
      if (inplace) { t = (unsigned char *)malloc(n + 1 > (size_t)ts ? n + 1 : (size_t)ts + 1); memcpy(t, b, n + 1); ret = rfbBase64PtoN((char *)t, t, (size_t)ts); }
      else { t = (unsigned char *)calloc((size_t)ts + 1, 1); ret = rfbBase64PtoN((char *)b, t, (size_t)ts); }
      printf("%s ret=%d out=", line, ret); puthex(t, ret > 0 ? (size_t)ret : 0); printf("\n");
      free(b); free(t);
    }
    else if (!strcmp(line, "sha1")) {
      unsigned char *b, dig[20]; size_t n = unhex(arg, &b); int r;
      memset(dig, 0, 20);
      r = hash_sha1(dig, b, n);
      printf("sha1 ok=%d out=", r); puthex(dig, 20); printf("\n"); free(b);
    }
    else if (!strcmp(line, "hs") || !strcmp(line, "hst")) {
      int tmo = line[2] == 't';   /* hst: the peer stays silent after the request (100 ms time-outs) instead of closing */
      unsigned char *b, *o; size_t n, m; int sv[2], ok, b64 = -1;
      rfbClientPtr cl;
      socketpair(AF_UNIX, SOCK_STREAM, 0, sv); big_bufs(sv);
      cl = (rfbClientPtr)calloc(1, sizeof(rfbClientRec));
      cl->sock = sv[0];
#ifdef LIBVNCSERVER_HAVE_LIBPTHREAD
      INIT_MUTEX(cl->outputMutex);
#endif
      fcntl(sv[0], F_SETFL, fcntl(sv[0], F_GETFL) | O_NONBLOCK);
      n = unhex(arg, &b);
      if (n) { ssize_t w = write(sv[1], b, n); (void)w; }
      if (!tmo) shutdown(sv[1], SHUT_WR);
      rfbMaxClientWait = 300;
      alarm(8);
      ok = webSocketsCheck(cl) ? 1 : 0;
      if (cl->wsctx) b64 = ((ws_ctx_t *)cl->wsctx)->base64 ? 1 : 0;
      m = drain(sv[1], &o);
      printf("%s ok=%d ws=%d b64=%d path=", line, ok, cl->wsctx ? 1 : 0, b64);
      if (cl->wspath) puthex((unsigned char *)cl->wspath, strlen(cl->wspath)); else putchar('~');
      printf(" resp="); puthex(o, m); printf("\n");
      free(o); free(b); if (cl->wsctx) free(cl->wsctx); if (cl->wspath) free(cl->wspath); free(cl); close(sv[0]); close(sv[1]);
    }
    else if (!strcmp(line, "sess")) do_sess(arg, 0);
    else if (!strcmp(line, "sesst")) do_sess(arg, 1);
    else printf("?? %s\n", line);
    alarm(0);
  }
  return 0;
}
