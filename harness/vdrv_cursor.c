/* C15 implementation driver: executes a cursor script against the library built from /repo and
 * prints one canonical observation line per operation (same format as ocaml/driver_C15.ml).
 * rfbShowCursor/rfbHideCursor are called on a real client of a real screen (socketpair session,
 * harness/vsess.h); the framebuffer is dumped after every call. */
#include "vsess.h"

#define MAXCL 4
static rfbScreenInfoPtr scr;
static int W, H, BPP;
static rfbClientPtr cls[MAXCL];
static int hook_k = -1; static rfbCursorPtr hook_cur;   /* see disp_hook */
static rfbCursorPtr default_cursor;   /* the library's built-in cursor every new screen starts with */
static int peers[MAXCL];
static vs_buf bufs[MAXCL];
static rfbCursorPtr pending;
static char *pics[MAXCL];          /* what peer k has decoded so far */
static int gone[MAXCL], session_mode;
static char *line;
#define LINESZ (1 << 22)

/* write-failure injection (link-time --wrap=write): after fail_budget more bytes every write to
 * fail_fd fails with EPIPE */
static int fail_fd = -1; static long fail_budget = -1;
ssize_t __real_write(int fd, const void *buf, size_t n);
ssize_t __wrap_write(int fd, const void *buf, size_t n) {
  if (fd == fail_fd && fail_budget >= 0) {
    if (fail_budget == 0) { errno = EPIPE; return -1; }
    if ((long)n > fail_budget) n = (size_t)fail_budget;
    fail_budget -= (long)n;
  }
  return __real_write(fd, buf, n);
}

/* STRIDE = screen->paddedWidthInBytes; op `stride pad` makes it larger than W*BPP (padding bytes 0xA5) */
static int STRIDE;
static uint32_t getpix(const char *fb, int x, int y) {
  uint32_t v = 0; memcpy(&v, fb + (size_t)y * STRIDE + (size_t)x * BPP, BPP); return v;
}
static void setpix(char *fb, int x, int y, uint32_t v) { memcpy(fb + (size_t)y * STRIDE + (size_t)x * BPP, &v, BPP); }
/* every padding byte between the rows still has its fill value? */
static int pad_damaged(const char *fb) {
  int x, y;
  for (y = 0; y < H; y++) for (x = W * BPP; x < STRIDE; x++) if ((unsigned char)fb[(size_t)y * STRIDE + x] != 0xA5) return 1;
  return 0;
}

static void dump(const char *tag, const char *fb) {
  int x, y;
  printf("%s ", tag);
  for (y = 0; y < H; y++) {
    if (y) putchar('/');
    for (x = 0; x < W; x++) printf("%s%x", x ? "," : "", getpix(fb, x, y));
  }
  if (pad_damaged(fb)) printf(" PADDAMAGED");
  putchar('\n');
}

static void drop_clients(void) {
  int i;
  for (i = 0; i < MAXCL; i++) if (cls[i]) {
    close(peers[i]); peers[i] = -1;
  }
  if (scr) vs_pump(scr, 0, NULL, NULL);
  for (i = 0; i < MAXCL; i++) { cls[i] = NULL; free(bufs[i].p); memset(&bufs[i], 0, sizeof bufs[i]); free(pics[i]); pics[i] = NULL; gone[i] = 0; }
  session_mode = 0; fail_fd = -1; fail_budget = -1;
  hook_k = -1; if (hook_cur) { rfbFreeCursor(hook_cur); hook_cur = NULL; }
}

/* the application replaces the cursor from its displayHook, i.e. at the head of
 * rfbSendFramebufferUpdate of client hook_k (one shot) */
static void disp_hook(rfbClientPtr cl) {
  if (hook_k >= 0 && cl == cls[hook_k]) { rfbCursorPtr c = hook_cur; hook_k = -1; hook_cur = NULL; rfbSetCursor(scr, c); }
}

static void gone_hook(rfbClientPtr cl) {
  int i; for (i = 0; i < MAXCL; i++) if (cls[i] == cl) { gone[i] = 1; if (fail_fd == cl->sock) { fail_fd = -1; fail_budget = -1; } }
}

/* decode everything peer k has received since the last call: Raw rectangles go into pics[k];
 * cursor pseudo-rectangles are reported.  Prints the per-client part of the observation line. */
static void obs_client(int k) {
  vs_buf *b = &bufs[k]; int sent = 0; char *shape = NULL; int havepos = 0, posx = 0, posy = 0;
  rfbClientPtr cl = cls[k];
  if (gone[k]) { printf(" | %d: dead", k); return; }
  while (b->n - b->rd >= 4 && b->p[b->rd] == 0) {
    unsigned nr = vs_get16(b->p + b->rd + 2), r; size_t o = b->rd + 4;
    sent = 1;
    for (r = 0; r < nr; r++) {
      unsigned x, y, w, h; int32_t enc;
      if (b->n - o < 12) { printf(" | %d: TRUNCATED announced=%u delivered=%u", k, nr, r); return; }
      x = vs_get16(b->p + o); y = vs_get16(b->p + o + 2); w = vs_get16(b->p + o + 4); h = vs_get16(b->p + o + 6);
      enc = (int32_t)vs_get32(b->p + o + 8);
      if (enc == 0) {
        unsigned i, j; size_t need = (size_t)w * h * BPP;
        if (b->n - o - 12 < need || x + w > (unsigned)W || y + h > (unsigned)H) { printf(" | %d: BADRECT %u,%u,%u,%u", k, x, y, w, h); return; }
        for (j = 0; j < h; j++) for (i = 0; i < w; i++)
          memcpy(pics[k] + ((size_t)(y + j) * W + x + i) * BPP, b->p + o + 12 + ((size_t)j * w + i) * BPP, BPP);
        o += 12 + need;
      } else if (enc == rfbEncodingCopyRect) {
        unsigned sx_, sy_, j; char *tmp;
        if (b->n - o < 16) { printf(" | %d: TRUNCATED", k); return; }
        sx_ = vs_get16(b->p + o + 12); sy_ = vs_get16(b->p + o + 14);
        if (x + w > (unsigned)W || y + h > (unsigned)H || sx_ + w > (unsigned)W || sy_ + h > (unsigned)H) { printf(" | %d: BADCOPY %u,%u,%u,%u<-%u,%u", k, x, y, w, h, sx_, sy_); return; }
        tmp = (char *)malloc((size_t)w * h * BPP + 1);
        for (j = 0; j < h; j++) memcpy(tmp + (size_t)j * w * BPP, pics[k] + ((size_t)(sy_ + j) * W + sx_) * BPP, (size_t)w * BPP);
        for (j = 0; j < h; j++) memcpy(pics[k] + ((size_t)(y + j) * W + x) * BPP, tmp + (size_t)j * w * BPP, (size_t)w * BPP);
        free(tmp);
        o += 16;
      } else if (enc == rfbEncodingXCursor || enc == rfbEncodingRichCursor) {
        size_t rb = (w + 7) / 8, len = 12, extra = 0, i;
        if (w * h) len += (enc == rfbEncodingXCursor ? 6 + rb * h : (size_t)w * h * BPP) + rb * h;
        /* RFB: w*h == 0 means no payload.  The library nevertheless sends the 6 colour bytes of an
         * XCursor whose width or height is 0 (non-NULL cursor): consume them, marked with '!' */
        else if (enc == rfbEncodingXCursor && (x || y || w || h)) extra = 6;
        if (b->n - o < len + extra) { printf(" | %d: TRUNCATED", k); return; }
        free(shape); shape = (char *)malloc(2 * (len + extra) + 2);
        for (i = 0; i < len; i++) sprintf(shape + 2 * i, "%02x", b->p[o + i]);
        if (extra) { shape[2 * len] = '!'; for (i = 0; i < extra; i++) sprintf(shape + 2 * len + 1 + 2 * i, "%02x", b->p[o + len + i]); }
        o += len + extra;
      } else if (enc == rfbEncodingPointerPos) { havepos = 1; posx = x; posy = y; o += 12; }
      else { printf(" | %d: UNEXPECTED-ENCODING %d", k, enc); return; }
    }
    b->rd = o;
  }
  if (b->n != b->rd) { printf(" | %d: UNEXPECTED-BYTES %zu type %u", k, b->n - b->rd, b->p[b->rd]); b->rd = b->n; }
  printf(" | %d: sent=%d shape=%s pos=", k, sent, shape ? shape : "-");
  if (havepos) printf("%d,%d", posx, posy); else printf("-");
  printf(" f=%d%d%d%d%d cl=%d,%d pic=", cl->enableCursorShapeUpdates ? 1 : 0, cl->useRichCursorEncoding ? 1 : 0,
         cl->enableCursorPosUpdates ? 1 : 0, cl->cursorWasChanged ? 1 : 0, cl->cursorWasMoved ? 1 : 0, cl->cursorX, cl->cursorY);
  { int x, y; for (y = 0; y < H; y++) { if (y) putchar('/'); for (x = 0; x < W; x++) { uint32_t v = 0; memcpy(&v, pics[k] + ((size_t)y * W + x) * BPP, BPP); printf("%s%x", x ? "," : "", v); } } }
  free(shape);
}

/* run the event loop until idle, then print "<tag> app=<fb> | <client 0> | ..." */
static void pump_obs(const char *tag) {
  int i, x, y;
  vs_pump(scr, MAXCL, peers, bufs);
  printf("%s app=", tag);
  for (y = 0; y < H; y++) { if (y) putchar('/'); for (x = 0; x < W; x++) printf("%s%x", x ? "," : "", getpix(scr->frameBuffer, x, y)); }
  if (pad_damaged(scr->frameBuffer)) printf(" PADDAMAGED");
  for (i = 0; i < MAXCL; i++) if (cls[i]) obs_client(i);
  putchar('\n');
}

static void send_encodings(int k, char *rest) {
  int32_t encs[16]; int n = 0; char *t;
  encs[n++] = rfbEncodingRaw;
  for (t = strtok(rest, " "); t; t = strtok(NULL, " ")) {
    if (!strcmp(t, "x")) encs[n++] = rfbEncodingXCursor;
    else if (!strcmp(t, "rich")) encs[n++] = rfbEncodingRichCursor;
    else if (!strcmp(t, "pos")) encs[n++] = rfbEncodingPointerPos;
    else if (!strcmp(t, "copyrect")) encs[n++] = rfbEncodingCopyRect;
  }
  vs_send_set_encodings(peers[k], n, encs);
}

static void drop_screen(void) {
  drop_clients();
  if (scr) {
    char *fb = scr->frameBuffer;
    if (pending) { rfbFreeCursor(pending); }
    pending = NULL;
    rfbScreenCleanup(scr); free(fb); scr = NULL;
  }
}

/* like vs_connect_raw + vs_handshake_none, but the client's version line is already in the socket
 * when rfbNewClient runs, so that webSocketsCheck's 100 ms peek returns at once */
static int fast_connect(int k) {
  int sv[2]; unsigned char m[16]; vs_buf *b = &bufs[k]; int peer;
  if (socketpair(AF_UNIX, SOCK_STREAM, 0, sv) < 0) return -1;
  fcntl(sv[1], F_SETFL, fcntl(sv[1], F_GETFL) | O_NONBLOCK);
  { int sz = 4 << 20; setsockopt(sv[0], SOL_SOCKET, SO_SNDBUF, &sz, sizeof sz); setsockopt(sv[1], SOL_SOCKET, SO_RCVBUF, &sz, sizeof sz); }
  peers[k] = peer = sv[1];
  vs_write(peer, "RFB 003.008\n", 12);
  cls[k] = rfbNewClient(scr, sv[0]);
  if (!cls[k]) return -1;
  vs_pump(scr, 1, &peer, b);
  if (b->n - b->rd < 12 + 2) return -2;
  b->rd += 12;
  { unsigned nt = b->p[b->rd]; b->rd += 1 + nt; }
  m[0] = 1; vs_write(peer, m, 1);
  vs_pump(scr, 1, &peer, b);
  if (b->n - b->rd < 4 || vs_get32(b->p + b->rd) != 0) return -3;
  b->rd += 4;
  m[0] = 1; vs_write(peer, m, 1);
  vs_pump(scr, 1, &peer, b);
  if (b->n - b->rd < 24) return -4;
  { uint32_t nl = vs_get32(b->p + b->rd + 20); b->rd += 24 + nl; }
  return 0;
}

static rfbClientPtr need_client(int k) {
  if (!cls[k]) {
    int rc = fast_connect(k);
    if (rc != 0) { printf("client-failed %d\n", rc); exit(3); }
  }
  return cls[k];
}

static unsigned char *hexbytes(const char *s, int *n) {
  int len = (int)strlen(s) / 2, i; unsigned char *p = (unsigned char *)malloc(len ? len : 1);
  for (i = 0; i < len; i++) { unsigned v; sscanf(s + 2 * i, "%2x", &v); p[i] = (unsigned char)v; }
  *n = len; return p;
}

int main(void) {
  char op[64]; int a[16];
  line = (char *)malloc(LINESZ);
  vs_quiet();
  memset(peers, -1, sizeof peers);
  while (fgets(line, LINESZ, stdin)) {
    int n = sscanf(line, "%63s %d %d %d %d %d %d %d %d %d %d %d", op, &a[0], &a[1], &a[2], &a[3], &a[4], &a[5], &a[6], &a[7], &a[8], &a[9], &a[10]);
    char *rest = line + strlen(op); size_t L = strlen(line);
    if (n < 1) continue;
    if (L && line[L - 1] == '\n') line[L - 1] = 0;
    while (*rest == ' ') rest++;
    if (!strcmp(op, "case")) { drop_screen(); printf("%s\n", line); }
    else if (!strcmp(op, "screen")) {
      drop_screen();
      W = a[0]; H = a[1]; BPP = a[2]; STRIDE = W * BPP;
      scr = vs_screen(W, H, BPP);
      if (!scr) { printf("screen failed\n"); continue; }
      scr->serverFormat.redMax = a[3]; scr->serverFormat.greenMax = a[4]; scr->serverFormat.blueMax = a[5];
      scr->serverFormat.redShift = a[6]; scr->serverFormat.greenShift = a[7]; scr->serverFormat.blueShift = a[8];
      default_cursor = scr->cursor;
      scr->cursor = NULL;
      printf("screen ok\n");
    }
    else if (!strcmp(op, "stride")) {
      /* stride pad: rows of the framebuffer are pad bytes further apart than W*BPP (paddedWidthInBytes);
       * the padding is filled with 0xA5 and must never be written */
      char *old = scr->frameBuffer;
      STRIDE = W * BPP + a[0];
      scr->frameBuffer = (char *)malloc((size_t)STRIDE * H + 8);
      memset(scr->frameBuffer, 0xA5, (size_t)STRIDE * H + 8);
      { int x, y; for (y = 0; y < H; y++) for (x = 0; x < W; x++) setpix(scr->frameBuffer, x, y, 0); }
      scr->paddedWidthInBytes = STRIDE;
      free(old);
      printf("stride ok\n");
    }
    else if (!strcmp(op, "fb")) {
      char *p = rest; int x, y;
      for (y = 0; y < H; y++) for (x = 0; x < W; x++) { uint32_t v = (uint32_t)strtoul(p, &p, 16); setpix(scr->frameBuffer, x, y, v); }
      printf("fb ok\n");
    }
    else if (!strcmp(op, "cur")) {
      if (pending) rfbFreeCursor(pending);      /* never installed; an installed cursor belongs to the library */
      pending = (rfbCursorPtr)calloc(1, sizeof(rfbCursor));
      pending->cleanup = TRUE;
      pending->width = a[0]; pending->height = a[1]; pending->xhot = a[2]; pending->yhot = a[3];
      pending->alphaPreMultiplied = a[4] ? TRUE : FALSE;
      pending->foreRed = a[5]; pending->foreGreen = a[6]; pending->foreBlue = a[7];
      pending->backRed = a[8]; pending->backGreen = a[9]; pending->backBlue = a[10];
      printf("cur ok\n");
    }
    else if (!strcmp(op, "src")) {
      int k; if (strcmp(rest, "-")) { pending->source = hexbytes(rest, &k); pending->cleanupSource = TRUE; }
      printf("src ok\n");
    }
    else if (!strcmp(op, "mask")) {
      int k; if (strcmp(rest, "-")) { pending->mask = hexbytes(rest, &k); pending->cleanupMask = TRUE; }
      printf("mask ok\n");
    }
    else if (!strcmp(op, "rich")) {
      if (strcmp(rest, "-")) {
        int cnt = pending->width * pending->height, i; char *p = rest;
        pending->richSource = (unsigned char *)calloc(cnt ? cnt : 1, BPP);
        for (i = 0; i < cnt; i++) { uint32_t v = (uint32_t)strtoul(p, &p, 16); memcpy(pending->richSource + (size_t)i * BPP, &v, BPP); }
        /* cleanupRichSource stays FALSE: this rich form is the application's, not one the library derived
         * (rfbNewFramebuffer drops library-derived ones); the harness frees nothing - leaks are not checked */
      }
      printf("rich ok\n");
    }
    else if (!strcmp(op, "alpha")) {
      int k; if (strcmp(rest, "-")) { pending->alphaSource = hexbytes(rest, &k); }
      printf("alpha ok\n");
    }
    else if (!strcmp(op, "setcur")) { rfbSetCursor(scr, pending); pending = NULL; if (session_mode) pump_obs("setcur"); else printf("setcur ok\n"); }
    else if (!strcmp(op, "nocur")) { rfbSetCursor(scr, NULL); pending = NULL; if (session_mode) pump_obs("nocur"); else printf("nocur ok\n"); }
    else if (!strcmp(op, "pos")) { rfbClientPtr cl = need_client(0); cl->cursorX = a[0]; cl->cursorY = a[1]; printf("pos ok\n"); }
    else if (!strcmp(op, "show")) { rfbShowCursor(need_client(0)); dump("show", scr->frameBuffer); }
    else if (!strcmp(op, "hide")) { rfbHideCursor(need_client(0)); dump("hide", scr->frameBuffer); }
    else if (!strcmp(op, "getrich")) {
      rfbCursorPtr c = scr->cursor;
      if (c && c->richSource) {
        int cnt = c->width * c->height, i;
        printf("getrich ");
        for (i = 0; i < cnt; i++) { uint32_t v = 0; memcpy(&v, c->richSource + (size_t)i * BPP, BPP); printf("%s%x", i ? "," : "", v); }
        putchar('\n');
      } else printf("getrich -\n");
    }
    else if (!strcmp(op, "makemask")) {
      char hex[1 << 14]; int w = a[0], h = a[1], k, i, rb = (w + 7) / 8; unsigned char *src; char *m;
      sscanf(line, "%*s %*d %*d %16383s", hex);
      src = hexbytes(strcmp(hex, "-") ? hex : "", &k);
      m = rfbMakeMaskForXCursor(w, h, (char *)src);
      printf("makemask ");
      for (i = 0; i < rb * h; i++) printf("%02x", (unsigned char)m[i]);
      putchar('\n'); free(m); free(src);
    }
    else if (!strcmp(op, "makex")) {
      rfbCursorPtr c = scr->cursor;
      if (!c) printf("makex -\n");
      else {
        int i, rb = (c->width + 7) / 8;
        rfbMakeXCursorFromRichCursor(scr, c);
        printf("makex ");
        for (i = 0; i < rb * c->height; i++) printf("%02x", c->source[i]);
        if (rb * c->height == 0) printf("-");
        printf(" %d %d %d\n", c->foreRed, c->foreGreen, c->foreBlue);
      }
    }
    else if (!strcmp(op, "client")) {
      int k = a[0]; char *e = rest; rfbClientPtr cl;
      session_mode = 1;
      cl = need_client(k);
      cl->clientGoneHook = gone_hook;
      pics[k] = (char *)calloc((size_t)W * H, BPP);
      while (*e && *e != ' ') e++;
      send_encodings(k, e);
      pump_obs("client");
    }
    else if (!strcmp(op, "setenc")) {
      int k = a[0]; char *e = rest;
      while (*e && *e != ' ') e++;
      if (cls[k] && !gone[k]) send_encodings(k, e);
      pump_obs("setenc");
    }
    else if (!strcmp(op, "fur")) {
      int k = a[0];
      if (cls[k] && !gone[k]) vs_send_fur(peers[k], a[1], a[2], a[3], a[4], a[5]);
      pump_obs("fur");
    }
    else if (!strcmp(op, "ptr")) {
      int k = a[0];
      if (cls[k] && !gone[k]) { unsigned char m[6]; m[0] = 5; m[1] = 0; vs_put16(m + 2, a[1]); vs_put16(m + 4, a[2]); vs_write(peers[k], m, 6); }
      pump_obs("ptr");
    }
    else if (!strcmp(op, "fill")) {
      int x, y; uint32_t v = 0;
      sscanf(line, "%*s %*d %*d %*d %*d %x", &v);
      for (y = a[1]; y < a[3]; y++) for (x = a[0]; x < a[2]; x++) setpix(scr->frameBuffer, x, y, v);
      rfbMarkRectAsModified(scr, a[0], a[1], a[2], a[3]);
      pump_obs("fill");
    }
    else if (!strcmp(op, "copy")) {
      /* copy x1 y1 x2 y2 dx dy: rfbDoCopyRect - pixels moved inside the framebuffer, CopyRect scheduled for the
       * clients that take it (cases with this op are checked by the picture oracle only) */
      rfbDoCopyRect(scr, a[0], a[1], a[2], a[3], a[4], a[5]);
      pump_obs("copy");
    }
    else if (!strcmp(op, "newfb")) {
      /* newfb <bitsPerSample> <pixels>: rfbNewFramebuffer with the same size and pixel size; every client
       * then asks for the new server format, so that no pixel translation is involved */
      char *p = rest, *old = scr->frameBuffer, *nf = (char *)calloc((size_t)W * H, BPP); int x, y, i, bps;
      bps = (int)strtol(p, &p, 10);
      STRIDE = W * BPP;       /* rfbNewFramebuffer: paddedWidthInBytes = width * bytesPerPixel */
      for (y = 0; y < H; y++) for (x = 0; x < W; x++) setpix(nf, x, y, (uint32_t)strtoul(p, &p, 16));
      rfbNewFramebuffer(scr, nf, W, H, bps, 3, BPP);
      free(old);
      for (i = 0; i < MAXCL; i++) if (cls[i] && !gone[i])
        vs_send_pixfmt(peers[i], 8 * BPP, 8 * BPP, 0, 1, scr->serverFormat.redMax, scr->serverFormat.greenMax, scr->serverFormat.blueMax,
                       scr->serverFormat.redShift, scr->serverFormat.greenShift, scr->serverFormat.blueShift);
      if (session_mode) pump_obs("newfb"); else printf("newfb ok\n");
    }
    else if (!strcmp(op, "defcur")) {
      /* back to the cursor the screen was created with (the library's default cursor) */
      rfbCursorPtr c = default_cursor; int i, rb = (c->width + 7) / 8;
      rfbSetCursor(scr, c);
      printf("defcur %d %d %d %d %d %d %d %d %d %d ", c->width, c->height, c->xhot, c->yhot, c->foreRed, c->foreGreen, c->foreBlue,
             c->backRed, c->backGreen, c->backBlue);
      for (i = 0; i < rb * c->height; i++) printf("%02x", c->source[i]);
      putchar(' ');
      for (i = 0; i < rb * c->height; i++) printf("%02x", c->mask[i]);
      putchar('\n');
    }
    else if (!strcmp(op, "hookcur")) {
      if (hook_cur) rfbFreeCursor(hook_cur);
      hook_k = a[0]; hook_cur = pending; pending = NULL;
      scr->displayHook = disp_hook;
      printf("hookcur ok\n");
    }
    else if (!strcmp(op, "failwrite")) {
      int k = a[0];
      if (cls[k] && !gone[k]) { fail_fd = cls[k]->sock; fail_budget = a[1]; }
      printf("failwrite ok\n");
    }
    else printf("?? %s\n", line);
    fflush(stdout);
  }
  drop_screen();
  return 0;
}
