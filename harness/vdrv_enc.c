/* vdrv_enc.c - C01 correspondence harness: a real rfbScreenInfo driven through a socketpair.
 * The peer (this program) sends SetPixelFormat / SetEncodings / FramebufferUpdateRequest,
 * pumps rfbProcessEvents, strips the transport framing of every rectangle of the update,
 * inflates zlib / LZO payloads with the real libraries (per-connection streams are kept) and
 * prints per update one line
 *     upd n=<k> <rect> <rect> ...       rect = hex(12-byte header ++ payload before compression)
 * Script (stdin), one op per line:
 *   case <n> <label>            new case (previous screen is destroyed)
 *   screen <w> <h> <bytespp> [<depth> <be> <rmax> <gmax> <bmax> <rs> <gs> <bs> <economic>]
 *                               create screen (server format: vs_screen defaults unless given; economic =
 *                               the public switch rfbEconomicTranslate), connect, handshake
 *   fmt <bpp> <depth> <be> <tc> <rmax> <gmax> <bmax> <rs> <gs> <bs>    SetPixelFormat
 *   enc <name> [compresslevel|-] [quality|-] [lastrect]                 SetEncodings; name "default": nothing is
 *                                                                       sent (preferredEncoding stays -1 = Raw)
 *   corre <mw> <mh>             set cl->correMaxWidth/Height (application knob)
 *   fb <hex>                    whole framebuffer content (server format, row-major, no padding)
 *   tr ...                      ignored here (translated pixels for the model driver)
 *   upd <x> <y> <w> <h>         non-incremental update request, then observe
 * The soft cursor is disabled (screen->cursor = NULL) so the framebuffer content at the time
 * of the update is exactly what `fb` wrote. */
#include "vsess.h"
#include <zlib.h>
#include "minilzo.h"
#include <png.h>

static rfbScreenInfoPtr scr = NULL;
static rfbClientPtr cl = NULL;
static int peer = -1;
static vs_buf in = {0};
static int sw, sh, sbypp;
static int cbypp = 0, cdepth = 0, cbe = 0, crmax = 0, cgmax = 0, cbmax = 0, crs = 0, cgs = 0, cbs = 0;
static int cur_enc = 0;
static z_stream zs_zlib, zs_zrle, zs_tight[4];
static int zs_zlib_on = 0, zs_zrle_on = 0, zs_tight_on[4] = {0, 0, 0, 0};

static void teardown(void) {
  int i;
  if (peer >= 0) { close(peer); peer = -1; }
  if (scr) {
    vs_pump(scr, 0, NULL, NULL);
    { char *fb = scr->frameBuffer; rfbScreenCleanup(scr); free(fb); }
    scr = NULL; cl = NULL;
  }
  if (zs_zlib_on) { inflateEnd(&zs_zlib); zs_zlib_on = 0; }
  if (zs_zrle_on) { inflateEnd(&zs_zrle); zs_zrle_on = 0; }
  for (i = 0; i < 4; i++) if (zs_tight_on[i]) { inflateEnd(&zs_tight[i]); zs_tight_on[i] = 0; }
  in.n = in.rd = 0;
}

/* like vs_connect_raw + vs_handshake_none, but the client's version line is already in the
 * socket when rfbNewClient runs, so the 100 ms WebSocket peek returns at once */
static rfbClientPtr connect_fast(rfbScreenInfoPtr s, int *pp, vs_buf *b) {
  int sv[2]; unsigned char m[4]; rfbClientPtr c;
  if (socketpair(AF_UNIX, SOCK_STREAM, 0, sv) < 0) return NULL;
  fcntl(sv[1], F_SETFL, fcntl(sv[1], F_GETFL) | O_NONBLOCK);
  { int sz = 4 << 20; setsockopt(sv[0], SOL_SOCKET, SO_SNDBUF, &sz, sizeof sz);
    setsockopt(sv[1], SOL_SOCKET, SO_RCVBUF, &sz, sizeof sz);
    setsockopt(sv[1], SOL_SOCKET, SO_SNDBUF, &sz, sizeof sz);
    setsockopt(sv[0], SOL_SOCKET, SO_RCVBUF, &sz, sizeof sz); }
  *pp = sv[1];
  vs_write(sv[1], "RFB 003.008\n", 12);
  c = rfbNewClient(s, sv[0]);
  if (!c) return NULL;
  vs_pump(s, 1, pp, b);
  if (b->n - b->rd < 12 + 2) return NULL;
  b->rd += 12;
  { unsigned nt = b->p[b->rd]; b->rd += 1 + nt; }
  m[0] = 1; vs_write(sv[1], m, 1);
  vs_pump(s, 1, pp, b);
  if (b->n - b->rd < 4 || vs_get32(b->p + b->rd) != 0) return NULL;
  b->rd += 4;
  m[0] = 1; vs_write(sv[1], m, 1);
  vs_pump(s, 1, pp, b);
  if (b->n - b->rd < 24) return NULL;
  { uint32_t nl = vs_get32(b->p + b->rd + 20); b->rd += 24 + nl; }
  return c;
}

static int hexv(int c) { return c <= '9' ? c - '0' : (c | 32) - 'a' + 10; }

typedef struct { unsigned char *p; size_t n, cap; } obuf;
static void ob_add(obuf *o, const unsigned char *d, size_t n) {
  if (o->n + n > o->cap) { o->cap = (o->n + n) * 2 + 256; o->p = (unsigned char *)realloc(o->p, o->cap); }
  if (n) memcpy(o->p + o->n, d, n);
  o->n += n;
}
static void ob_hex(const obuf *o) {
  static const char *hx = "0123456789abcdef"; size_t i;
  char *s = (char *)malloc(o->n * 2 + 1);
  for (i = 0; i < o->n; i++) { s[2 * i] = hx[o->p[i] >> 4]; s[2 * i + 1] = hx[o->p[i] & 15]; }
  s[o->n * 2] = 0; fputs(s, stdout); free(s);
}

/* bytes still unread */
static size_t avail(void) { return in.n - in.rd; }
static unsigned char *cur(void) { return in.p + in.rd; }

/* inflate `len` compressed bytes at cur() with stream z into o; expect = expected size or -1 (all) */
static int do_inflate(z_stream *z, int *on, size_t len, obuf *o) {
  unsigned char tmp[65536]; int rc;
  if (!*on) { memset(z, 0, sizeof *z); if (inflateInit(z) != Z_OK) return -1; *on = 1; }
  z->next_in = cur(); z->avail_in = (uInt)len;
  do {
    z->next_out = tmp; z->avail_out = sizeof tmp;
    rc = inflate(z, Z_SYNC_FLUSH);
    if (rc != Z_OK && rc != Z_BUF_ERROR && rc != Z_STREAM_END) return -2;
    ob_add(o, tmp, sizeof tmp - z->avail_out);
  } while (z->avail_out == 0 || z->avail_in > 0);
  return 0;
}

/* Tight compact length: 1..3 bytes */
static int compact_len(size_t *len) {
  size_t v; unsigned b;
  if (avail() < 1) return -1;
  b = cur()[0]; in.rd++; v = b & 0x7f;
  if (b & 0x80) {
    if (avail() < 1) return -1;
    b = cur()[0]; in.rd++; v |= (size_t)(b & 0x7f) << 7;
    if (b & 0x80) { if (avail() < 1) return -1; b = cur()[0]; in.rd++; v |= (size_t)b << 14; }
  }
  *len = v; return 0;
}

static int tight_pixel_size(void) {
  if (cbypp == 4 && cdepth == 24 && crmax == 255 && cgmax == 255 && cbmax == 255) return 3;
  return cbypp;
}

/* parse one rectangle payload; returns 0 ok, <0 on truncation / framing error.
 * o receives header ++ canonical payload */
static int parse_rect(obuf *o, const char **why) {
  unsigned x, y, w, h; int32_t enc; size_t need, i;
  if (avail() < 12) { *why = "short-header"; return -1; }
  x = vs_get16(cur()); y = vs_get16(cur() + 2); w = vs_get16(cur() + 4); h = vs_get16(cur() + 6);
  enc = (int32_t)vs_get32(cur() + 8);
  ob_add(o, cur(), 12); in.rd += 12;
  (void)x; (void)y;
  switch (enc) {
  case 0:
    need = (size_t)w * h * cbypp;
    if (avail() < need) { *why = "short-raw"; return -1; }
    ob_add(o, cur(), need); in.rd += need; return 0;
  case 2: case 4: {
    uint32_t n; size_t per = cbypp + (enc == 2 ? 8 : 4);
    if (avail() < 4) { *why = "short-rre"; return -1; }
    n = vs_get32(cur());
    need = 4 + cbypp + (size_t)n * per;
    if (avail() < need) { *why = "short-rre-subrects"; return -1; }
    ob_add(o, cur(), need); in.rd += need; return 0; }
  case 5: {
    unsigned ty, tx;
    for (ty = 0; ty < h; ty += 16) for (tx = 0; tx < w; tx += 16) {
      unsigned tw = w - tx < 16 ? w - tx : 16, th = h - ty < 16 ? h - ty : 16; unsigned b;
      if (avail() < 1) { *why = "short-hextile"; return -1; }
      b = cur()[0]; need = 1;
      if (b & 1) need += (size_t)tw * th * cbypp;
      else {
        if (b & 2) need += cbypp;
        if (b & 4) need += cbypp;
        if (b & 8) {
          unsigned n;
          if (avail() < need + 1) { *why = "short-hextile"; return -1; }
          n = cur()[need]; need += 1 + (size_t)n * ((b & 16) ? cbypp + 2 : 2);
        }
      }
      if (avail() < need) { *why = "short-hextile"; return -1; }
      ob_add(o, cur(), need); in.rd += need;
    }
    return 0; }
  case 6: case 16: case 17: {
    uint32_t len; int rc;
    if (avail() < 4) { *why = "short-zlib"; return -1; }
    len = vs_get32(cur()); in.rd += 4;
    if (avail() < len) { *why = "short-zlib-data"; return -1; }
    rc = enc == 6 ? do_inflate(&zs_zlib, &zs_zlib_on, len, o) : do_inflate(&zs_zrle, &zs_zrle_on, len, o);
    in.rd += len;
    if (rc) { *why = "inflate-error"; return -2; }
    return 0; }
  case 9: {
    uint32_t len; lzo_uint outlen = (lzo_uint)w * h * cbypp; unsigned char *out; int rc;
    if (avail() < 4) { *why = "short-ultra"; return -1; }
    len = vs_get32(cur()); in.rd += 4;
    if (avail() < len) { *why = "short-ultra-data"; return -1; }
    out = (unsigned char *)malloc(outlen + 16);
    rc = lzo1x_decompress_safe(cur(), len, out, &outlen, NULL);
    in.rd += len;
    if (rc != LZO_E_OK) { free(out); *why = "lzo-error"; return -2; }
    ob_add(o, out, outlen); free(out);
    return 0; }
  case 7: case -260: {
    unsigned ctl, comp; int s; size_t len;
    if (avail() < 1) { *why = "short-tight"; return -1; }
    ctl = cur()[0]; ob_add(o, cur(), 1); in.rd++;
    for (s = 0; s < 4; s++) if ((ctl >> s) & 1) { if (zs_tight_on[s]) { inflateEnd(&zs_tight[s]); zs_tight_on[s] = 0; } }
    comp = ctl >> 4;
    if (comp == 8) {
      need = tight_pixel_size();
      if (avail() < need) { *why = "short-tight-fill"; return -1; }
      ob_add(o, cur(), need); in.rd += need; return 0;
    }
    if (comp == 9 || (comp == 10 && enc == -260)) {            /* jpeg / png container */
      if (compact_len(&len)) { *why = "short-tight-len"; return -1; }
      if (avail() < len) { *why = "short-tight-img"; return -1; }
      if (comp == 10) {                /* TightPng (sampled test): decode with libpng, emit RGB triplets */
        png_image img; unsigned char *rgb;
        memset(&img, 0, sizeof img); img.version = PNG_IMAGE_VERSION;
        if (!png_image_begin_read_from_memory(&img, cur(), len)) { *why = "png-error"; return -2; }
        img.format = PNG_FORMAT_RGB;
        if (img.width != w || img.height != h) { png_image_free(&img); *why = "png-size"; return -2; }
        rgb = (unsigned char *)malloc(PNG_IMAGE_SIZE(img));
        if (!png_image_finish_read(&img, NULL, rgb, 0, NULL)) { free(rgb); *why = "png-error"; return -2; }
        ob_add(o, rgb, (size_t)w * h * 3); free(rgb);
        in.rd += len; return 0;
      }
      ob_add(o, cur(), len); in.rd += len; return 0;
    }
    {
      /* rfbTightNoZlib (0x0A, TurboVNC extension): same layout, data not deflated.  Kept in
       * the canonical output so that the spec decoder can judge it. */
      int nozlib = (enc == 7 && (comp & 0x0A) == 0x0A && comp != 0x0B && comp != 0x0F) ? 1 : 0;
      int stream, filter = 0; size_t datalen = (size_t)w * h * tight_pixel_size();
      if (nozlib) comp &= ~0x0A;
      if (comp > 7) { *why = "tight-bad-control"; return -2; }
      stream = comp & 3;
      if (comp & 4) {
        if (avail() < 1) { *why = "short-tight-filter"; return -1; }
        filter = cur()[0]; ob_add(o, cur(), 1); in.rd++;
        if (filter == 1) {
          unsigned nc;
          if (avail() < 1) { *why = "short-tight-palette"; return -1; }
          nc = cur()[0] + 1; need = 1 + (size_t)nc * tight_pixel_size();
          if (avail() < need) { *why = "short-tight-palette"; return -1; }
          ob_add(o, cur(), need); in.rd += need;
          datalen = nc <= 2 ? (size_t)((w + 7) / 8) * h : (size_t)w * h;
        } else if (filter != 0 && filter != 2) { *why = "tight-bad-filter"; return -2; }
      }
      if (datalen < 12) {
        if (avail() < datalen) { *why = "short-tight-data"; return -1; }
        ob_add(o, cur(), datalen); in.rd += datalen; return 0;
      }
      if (compact_len(&len)) { *why = "short-tight-len"; return -1; }
      if (avail() < len) { *why = "short-tight-zdata"; return -1; }
      if (nozlib) {
        if (len != datalen) { *why = "tight-nozlib-length"; return -2; }
        ob_add(o, cur(), len); in.rd += len; return 0;
      }
      { size_t before = o->n; int rc = do_inflate(&zs_tight[stream], &zs_tight_on[stream], len, o);
        in.rd += len;
        if (rc) { *why = "inflate-error"; return -2; }
        if (o->n - before != datalen) { *why = "tight-length-mismatch"; return -2; } }
      return 0;
    } }
  default:
    for (i = 0; i < 1; i++) ;
    *why = "unknown-encoding"; return -3;
  }
}

static int32_t enc_of(const char *n) {
  if (!strcmp(n, "raw")) return 0;
  if (!strcmp(n, "rre")) return 2;
  if (!strcmp(n, "corre")) return 4;
  if (!strcmp(n, "hextile")) return 5;
  if (!strcmp(n, "zlib")) return 6;
  if (!strcmp(n, "tight")) return 7;
  if (!strcmp(n, "ultra")) return 9;
  if (!strcmp(n, "zrle")) return 16;
  if (!strcmp(n, "zywrle")) return 17;
  if (!strcmp(n, "tightpng")) return -260;
  return atoi(n);
}

int main(void) {
  size_t cap = 1 << 20; char *line = (char *)malloc(cap); ssize_t len;
  vs_quiet();
  if (lzo_init() != LZO_E_OK) { printf("lzo-init-failed\n"); return 2; }
  while ((len = getline(&line, &cap, stdin)) > 0) {
    char op[32]; int pos = 0;
    while (len > 0 && (line[len - 1] == '\n' || line[len - 1] == '\r')) line[--len] = 0;
    if (sscanf(line, "%31s%n", op, &pos) != 1) continue;
    if (!strcmp(op, "case")) { teardown(); printf("%s\n", line); fflush(stdout); continue; }
    if (!strcmp(op, "screen")) {
      teardown();
      int sf[9], nsf;
      nsf = sscanf(line + pos, "%d %d %d %d %d %d %d %d %d %d %d %d", &sw, &sh, &sbypp, &sf[0], &sf[1], &sf[2], &sf[3], &sf[4],
                   &sf[5], &sf[6], &sf[7], &sf[8]);
      if (nsf != 3 && nsf != 12) { printf("bad-screen\n"); continue; }
      scr = vs_screen(sw, sh, sbypp);
      if (!scr) { printf("no-screen\n"); continue; }
      scr->cursor = NULL;
      rfbEconomicTranslate = FALSE;
      if (nsf == 12) {                 /* application-chosen server pixel format, set before any client connects */
        scr->serverFormat.depth = sf[0]; scr->serverFormat.bigEndian = sf[1];
        scr->serverFormat.redMax = sf[2]; scr->serverFormat.greenMax = sf[3]; scr->serverFormat.blueMax = sf[4];
        scr->serverFormat.redShift = sf[5]; scr->serverFormat.greenShift = sf[6]; scr->serverFormat.blueShift = sf[7];
        rfbEconomicTranslate = sf[8] ? TRUE : FALSE;
      }
      cl = connect_fast(scr, &peer, &in);
      if (!cl) { printf("handshake-failed\n"); continue; }
      cbypp = sbypp; cdepth = scr->serverFormat.depth; cbe = scr->serverFormat.bigEndian;
      crmax = scr->serverFormat.redMax; cgmax = scr->serverFormat.greenMax; cbmax = scr->serverFormat.blueMax;
      crs = scr->serverFormat.redShift; cgs = scr->serverFormat.greenShift; cbs = scr->serverFormat.blueShift;
      cur_enc = 0;
      continue;
    }
    if (!scr || !cl) { if (!strcmp(op, "upd")) printf("upd no-session\n"); continue; }
    if (!strcmp(op, "fmt")) {
      int bpp, tc;
      if (sscanf(line + pos, "%d %d %d %d %d %d %d %d %d %d", &bpp, &cdepth, &cbe, &tc, &crmax, &cgmax, &cbmax, &crs, &cgs, &cbs) != 10) { printf("bad-fmt\n"); continue; }
      cbypp = bpp / 8;
      vs_send_pixfmt(peer, bpp, cdepth, cbe, tc, crmax, cgmax, cbmax, crs, cgs, cbs);
      vs_pump(scr, 1, &peer, &in);
      continue;
    }
    if (!strcmp(op, "enc")) {
      char name[32], a[16] = "-", b[16] = "-", c[16] = "-"; int32_t e[8]; int n = 0;
      if (sscanf(line + pos, "%31s %15s %15s %15s", name, a, b, c) < 1) { printf("bad-enc\n"); continue; }
      if (!strcmp(name, "default")) { cur_enc = 0; continue; }
      cur_enc = enc_of(name);
      e[n++] = cur_enc;
      if (a[0] != '-') e[n++] = (int32_t)(0xFFFFFF00u + atoi(a));      /* compress level 0..9 */
      if (b[0] != '-') e[n++] = (int32_t)(0xFFFFFFE0u + atoi(b));      /* quality level 0..9 */
      if (!strcmp(c, "lastrect")) e[n++] = -224;                        /* rfbEncodingLastRect */
      vs_send_set_encodings(peer, n, e);
      vs_pump(scr, 1, &peer, &in);
      continue;
    }
    if (!strcmp(op, "corre")) {
      int mw, mh;
      if (sscanf(line + pos, "%d %d", &mw, &mh) == 2) { cl->correMaxWidth = mw; cl->correMaxHeight = mh; }
      continue;
    }
    if (!strcmp(op, "fb")) {
      char *p = line + pos; size_t n = 0, total = (size_t)sw * sh * sbypp;
      while (*p == ' ') p++;
      while (p[0] && p[1] && n < total) { scr->frameBuffer[n++] = (char)(hexv(p[0]) * 16 + hexv(p[1])); p += 2; }
      if (n != total) printf("bad-fb %zu/%zu\n", n, total);
      continue;
    }
    if (!strcmp(op, "upd")) {
      int x, y, w, h; unsigned nrects, k; int closed = 0;
      if (sscanf(line + pos, "%d %d %d %d", &x, &y, &w, &h) != 4) { printf("bad-upd\n"); continue; }
      in.n = in.rd = 0;
      rfbMarkRectAsModified(scr, 0, 0, sw, sh);
      vs_send_fur(peer, 0, x, y, w, h);
      vs_pump(scr, 1, &peer, &in);
      { rfbClientIteratorPtr it = rfbGetClientIterator(scr); if (!rfbClientIteratorNext(it)) closed = 1; rfbReleaseClientIterator(it); }
      if (closed) {                       /* the server dropped the client during this update */
        printf("upd closed\n"); cl = NULL; fflush(stdout); continue;
      }
      if (avail() < 4 || cur()[0] != 0) {
        printf("upd no-update avail=%zu\n", avail());
        fflush(stdout); continue;
      }
      nrects = vs_get16(cur() + 2); in.rd += 4;
      {
        obuf all = {0}; unsigned count = 0; const char *why = NULL; int rc = 0; char tmp[64];
        obuf *rects = NULL; unsigned cap_r = 0;
        for (k = 0; nrects == 0xFFFF || k < nrects; k++) {
          obuf o = {0};
          if (nrects == 0xFFFF && avail() >= 12 && (int32_t)vs_get32(cur() + 8) == -224) { in.rd += 12; break; }
          rc = parse_rect(&o, &why);
          if (count == cap_r) { cap_r = cap_r * 2 + 8; rects = (obuf *)realloc(rects, cap_r * sizeof(obuf)); }
          rects[count++] = o;
          if (rc) break;
        }
        printf("upd n=%u", count);
        for (k = 0; k < count; k++) { putchar(' '); ob_hex(&rects[k]); free(rects[k].p); }
        if (rc) printf(" ERROR=%s", why);
        else if (avail()) printf(" TRAILING=%zu", avail());
        if (closed) { printf(" closed"); cl = NULL; }
        putchar('\n');
        free(rects); (void)all; (void)tmp;
      }
      fflush(stdout);
      continue;
    }
  }
  teardown();
  free(line);
  return 0;
}
