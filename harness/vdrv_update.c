/* C02 / C16 implementation driver: runs update-bookkeeping scripts against one real
 * rfbScreenInfo with 0..3 socketpair clients speaking Raw (+CopyRect, RichCursor, NewFBSize,
 * ExtendedDesktopSize on request) and prints one canonical observation line per operation
 * (same format as ocaml/driver_C02.ml):
 *
 *   o <op> | w<c>:n=<announced>:[rect;rect..] ... | c<i> M=[..] C=[..] d=dx,dy R=[..] f=<flags>
 *            sy=<sliceY> sz=<wxh> P=<hash of the peer's decoded picture> I=<0|1> | ... | F=<hash of fb> S=<wxhxbpp>
 *
 * Regions are read with the sra iterators on cl->modifiedRegion / copyRegion / requestedRegion.
 * Each peer decodes every FramebufferUpdate by the RFB semantics into its own picture.
 * I = the spec-level oracle, evaluated on the implementation's own state, independent of the
 * mirror model:  for every pixel p of the screen not in M:  p in C -> peer(p-d) == fb(p),
 *                                                          p not in C -> peer(p) == fb(p).
 * When M = C = {} this is "the client's picture equals the framebuffer".
 * The library's entry points are called directly (rfbProcessClientMessage for one client
 * message, rfbUpdateClient, rfbSendFramebufferUpdate), i.e. exactly what rfbProcessEvents
 * would call, one at a time. */
#include "vsess.h"
#include <rfb/rfbclient.h>
#include <ctype.h>
#include <stdarg.h>

#include <sys/time.h>
#define MAXC 4
/* virtual clock: every gettimeofday() of the library (rfbUpdateClient's deferral) reads it */
static long vnow_s = 1000, vnow_us = 0;
int __wrap_gettimeofday(struct timeval *tv, void *tz) { if (tv) { tv->tv_sec = vnow_s; tv->tv_usec = vnow_us; } return 0; }
static rfbScreenInfoPtr scr;
static int W, H, BPP;
static char *fbmem;
static rfbClientPtr cls[MAXC];
static int peers[MAXC];
static vs_buf bufs[MAXC];
static uint32_t *ppic[MAXC];
static int pw[MAXC], ph[MAXC], pbpp[MAXC];
static int ncl;
static int dead;           /* rest of the case is skipped (model: explicit error) */
static int free_old = 1;   /* newfb: free the old buffer immediately */

static char wire[MAXC][8192];
/* "enc" cases: every peer is a real LibVNCClient decoder (any pixel encoding: RRE, CoRRE, Hextile, Zlib,
 * Tight, ZlibHex, Ultra, TRLE, ZRLE ...).  The harness still owns the connection: it reads the server's bytes,
 * forwards them into a private socketpair whose other end is the rfbClient's socket, lets the client library
 * decode (HandleRFBServerMessage) and throws away whatever the client library writes by itself (it asks
 * for an incremental update after each one; requests are the script's business). */
static int encmode;
static rfbClient *lib[MAXC];
static int feed[MAXC];
static int lib_err[MAXC];

static uint32_t fb_get(const char *fb, int w, int bpp, int x, int y) {
  const unsigned char *p = (const unsigned char *)fb + ((size_t)y * w + x) * bpp;
  if (bpp == 1) return p[0];
  if (bpp == 2) return p[0] | (p[1] << 8);
  return p[0] | (p[1] << 8) | (p[2] << 16) | ((uint32_t)p[3] << 24);
}
static void fb_put(char *fb, int w, int bpp, int x, int y, uint32_t v) {
  unsigned char *p = (unsigned char *)fb + ((size_t)y * w + x) * bpp;
  p[0] = v; if (bpp >= 2) p[1] = v >> 8; if (bpp == 4) { p[2] = v >> 16; p[3] = v >> 24; }
}
static uint32_t draw_value(int bpp, long seed, long x, long y) {
  long long v = seed * 40503LL + x * 257 + y * 4099 + 1;
  long long m = bpp == 1 ? 256LL : (bpp == 2 ? 65536LL : 4294967296LL);
  v %= m; if (v < 0) v += m;
  return (uint32_t)v;
}

static void print_region(const char *tag, sraRegionPtr r) {
  sraRectangleIterator *i = sraRgnGetIterator(r);
  sraRect rc; int first = 1;
  printf(" %s=[", tag);
  while (sraRgnIteratorNext(i, &rc)) { printf("%s%d,%d,%d,%d", first ? "" : ";", rc.x1, rc.y1, rc.x2, rc.y2); first = 0; }
  sraRgnReleaseIterator(i);
  printf("]");
}
static void region_bitmap(sraRegionPtr r, unsigned char *bm) {
  sraRectangleIterator *i = sraRgnGetIterator(r);
  sraRect rc; int x, y;
  memset(bm, 0, (size_t)W * H);
  while (sraRgnIteratorNext(i, &rc))
    for (y = rc.y1 < 0 ? 0 : rc.y1; y < rc.y2 && y < H; y++)
      for (x = rc.x1 < 0 ? 0 : rc.x1; x < rc.x2 && x < W; x++) bm[(size_t)y * W + x] = 1;
  sraRgnReleaseIterator(i);
}

static unsigned long pic_hash_peer(int c) {
  unsigned long long h = 0; int x, y;
  for (y = 0; y < ph[c]; y++) for (x = 0; x < pw[c]; x++)
    h = (h * 31 + (unsigned long long)ppic[c][(size_t)y * pw[c] + x] + 1) % 1000000007ULL;
  return (unsigned long)h;
}
static unsigned long pic_hash_fb(void) {
  unsigned long long h = 0; int x, y;
  for (y = 0; y < H; y++) for (x = 0; x < W; x++)
    h = (h * 31 + (unsigned long long)fb_get(scr->frameBuffer, W, BPP, x, y) + 1) % 1000000007ULL;
  return (unsigned long)h;
}

/* translation server pixel -> what this peer must hold (peers keep the format they were
 * given at connection time = server format at that time; C16 depth changes: see peer_expect) */
static int srv_rmax, srv_gmax, srv_bmax, srv_rs, srv_gs, srv_bs;
typedef struct { int bpp, rmax, gmax, bmax, rs, gs, bs; } pfmt;
static pfmt pf[MAXC];
static uint32_t peer_expect(int c, uint32_t v) {
  const rfbPixelFormat *s = &scr->serverFormat;
  if (pf[c].bpp == s->bitsPerPixel / 8 && pf[c].rmax == s->redMax && pf[c].gmax == s->greenMax && pf[c].bmax == s->blueMax &&
      pf[c].rs == s->redShift && pf[c].gs == s->greenShift && pf[c].bs == s->blueShift) return v;
  { uint32_t r = (v >> s->redShift) & s->redMax, g = (v >> s->greenShift) & s->greenMax, b = (v >> s->blueShift) & s->blueMax;
    r = (r * pf[c].rmax + s->redMax / 2) / s->redMax;
    g = (g * pf[c].gmax + s->greenMax / 2) / s->greenMax;
    b = (b * pf[c].bmax + s->blueMax / 2) / s->blueMax;
    return (r << pf[c].rs) | (g << pf[c].gs) | (b << pf[c].bs); }
}

static int inv_check(int c) {
  static unsigned char *bm = NULL, *bc = NULL; static size_t cap = 0;
  int x, y, dx = cls[c]->copyDX, dy = cls[c]->copyDY;
  if ((size_t)W * H > cap) { cap = (size_t)W * H; bm = realloc(bm, cap); bc = realloc(bc, cap); }
  /* Raw peers: every bit of the pixel.  LibVNCClient peers: the colour bits of the client's format (ZRLE and
   * Tight legitimately drop the unused byte of a 32-bit pixel) */
  uint32_t cmask = lib[c] ? (((uint32_t)pf[c].rmax << pf[c].rs) | ((uint32_t)pf[c].gmax << pf[c].gs) | ((uint32_t)pf[c].bmax << pf[c].bs)) : 0xffffffffu;
  region_bitmap(cls[c]->modifiedRegion, bm);
  region_bitmap(cls[c]->copyRegion, bc);
  for (y = 0; y < H; y++) for (x = 0; x < W; x++) {
    size_t k = (size_t)y * W + x; int qx = x, qy = y;
    if (bm[k]) continue;
    if (bc[k]) { qx = x - dx; qy = y - dy; }
    if (qx < 0 || qy < 0 || qx >= pw[c] || qy >= ph[c]) return 0;
    { uint32_t got = ppic[c][(size_t)qy * pw[c] + qx], want = peer_expect(c, fb_get(scr->frameBuffer, W, BPP, x, y));
      if ((got & cmask) != (want & cmask)) { if (getenv("VDBG")) fprintf(stderr, "inv c%d (%d,%d): peer %08x expect %08x\n", c, x, y, got, want); return 0; } }
  }
  return 1;
}

static int bits_of(int bpp, int rmax) { int b = 0; if (bpp == 1) return 8; while ((1 << b) - 1 < rmax) b++; return b; }

/* ---- peer: decode whatever arrived for client c ---- */
/* content is undefined after a resize (here 0); a size message with the current size changes nothing */
static void peer_resize(int c, int w, int h) {
  if (ppic[c] && pw[c] == w && ph[c] == h) return;
  free(ppic[c]); pw[c] = w; ph[c] = h;
  ppic[c] = (uint32_t *)calloc((size_t)w * h + 1, sizeof(uint32_t));
}
static void wadd(int c, const char *fmt, ...) {
  va_list ap; size_t n = strlen(wire[c]);
  va_start(ap, fmt); vsnprintf(wire[c] + n, sizeof wire[c] - n, fmt, ap); va_end(ap);
}
/* ---- LibVNCClient peers ---- */
static rfbBool lib_malloc_fb(rfbClient *cl) {
  free(cl->frameBuffer);
  cl->frameBuffer = (uint8_t *)calloc((size_t)cl->width * cl->height + 1, cl->format.bitsPerPixel / 8);
  return cl->frameBuffer != NULL;
}
static void lib_set_format(int c, int depth) {
  rfbPixelFormat *f = &lib[c]->format;
  f->bitsPerPixel = 8 * pf[c].bpp; f->depth = depth; f->bigEndian = 0; f->trueColour = 1;
  f->redMax = pf[c].rmax; f->greenMax = pf[c].gmax; f->blueMax = pf[c].bmax;
  f->redShift = pf[c].rs; f->greenShift = pf[c].gs; f->blueShift = pf[c].bs;
  lib[c]->si.format = *f;
}
static void lib_resize(int c, int w, int h) {
  if (lib[c]->frameBuffer && lib[c]->width == w && lib[c]->height == h) return;
  lib[c]->width = w; lib[c]->height = h; lib_malloc_fb(lib[c]);
}
static void lib_sync(int c) {
  int x, y, bpp = lib[c]->format.bitsPerPixel / 8, w = lib[c]->width, h = lib[c]->height;
  if (!ppic[c] || pw[c] != w || ph[c] != h) { free(ppic[c]); pw[c] = w; ph[c] = h; ppic[c] = (uint32_t *)calloc((size_t)w * h + 1, sizeof(uint32_t)); }
  for (y = 0; y < h; y++) for (x = 0; x < w; x++) ppic[c][(size_t)y * w + x] = fb_get((const char *)lib[c]->frameBuffer, w, bpp, x, y);
}
static void lib_pump(int c) {
  vs_buf *b = &bufs[c];
  if (b->n > b->rd) { if (!lib_err[c]) vs_write(feed[c], b->p + b->rd, b->n - b->rd); b->rd = b->n; }
  while (!lib_err[c]) {
    struct pollfd p; p.fd = lib[c]->sock; p.events = POLLIN; p.revents = 0;
    if (lib[c]->buffered == 0 && poll(&p, 1, 0) <= 0) break;
    if (!HandleRFBServerMessage(lib[c])) { lib_err[c] = 1; wadd(c, " w%d:DECODE-ERROR", c); }
  }
  { unsigned char tmp[4096]; while (vs_read_avail(feed[c], tmp, sizeof tmp) > 0) ; }
  lib_sync(c);
}
static int lib_new(int c) {
  int sv[2], sz = 4 << 20;
  if (socketpair(AF_UNIX, SOCK_STREAM, 0, sv) < 0) return -1;
  fcntl(sv[0], F_SETFL, fcntl(sv[0], F_GETFL) | O_NONBLOCK);
  fcntl(sv[1], F_SETFL, fcntl(sv[1], F_GETFL) | O_NONBLOCK);
  setsockopt(sv[0], SOL_SOCKET, SO_SNDBUF, &sz, sizeof sz); setsockopt(sv[1], SOL_SOCKET, SO_RCVBUF, &sz, sizeof sz);
  setsockopt(sv[1], SOL_SOCKET, SO_SNDBUF, &sz, sizeof sz); setsockopt(sv[0], SOL_SOCKET, SO_RCVBUF, &sz, sizeof sz);
  rfbEnableClientLogging = getenv("VDBG") ? TRUE : FALSE;
  lib[c] = rfbGetClient(8, 3, 4);
  if (!lib[c]) return -1;
  feed[c] = sv[0]; lib[c]->sock = sv[1]; lib_err[c] = 0;
  lib[c]->MallocFrameBuffer = lib_malloc_fb;
  lib[c]->canHandleNewFBSize = TRUE;
  lib[c]->readTimeout = 1;
  lib_set_format(c, scr->serverFormat.depth);
  lib[c]->si.framebufferWidth = W; lib[c]->si.framebufferHeight = H;
  lib[c]->frameBuffer = NULL; lib[c]->width = 0; lib[c]->height = 0;
  lib_resize(c, W, H);
  return 0;
}
static void lib_free(int c) {
  if (!lib[c]) return;
  free(lib[c]->frameBuffer); lib[c]->frameBuffer = NULL;
  rfbClientCleanup(lib[c]); lib[c] = NULL;
  close(feed[c]); feed[c] = -1;
}
static int peer_parse(int c) {
  vs_buf *b = &bufs[c];
  for (;;) {
    size_t av = b->n - b->rd, pos; unsigned char *p = b->p + b->rd;
    unsigned nr, k; int bpp = pbpp[c];
    if (av == 0) return 0;
    if (p[0] == rfbResizeFrameBuffer) {
      if (av < sz_rfbResizeFrameBufferMsg) return 0;
      wadd(c, " w%d:resize=%ux%u", c, vs_get16(p + 2), vs_get16(p + 4));
      peer_resize(c, vs_get16(p + 2), vs_get16(p + 4));
      b->rd += sz_rfbResizeFrameBufferMsg;
      continue;
    }
    if (p[0] != 0) { wadd(c, " w%d:UNEXPECTED-MSG-%u", c, p[0]); b->rd = b->n; return -1; }
    if (av < 4) return 0;
    nr = vs_get16(p + 2); pos = 4;
    /* first pass: is the message complete? */
    for (k = 0; k < nr; k++) {
      unsigned w, h; int32_t enc; size_t need;
      if (av < pos + 12) return 0;
      w = vs_get16(p + pos + 4); h = vs_get16(p + pos + 6); enc = (int32_t)vs_get32(p + pos + 8);
      pos += 12;
      if (enc == rfbEncodingRaw) need = (size_t)w * h * bpp;
      else if (enc == rfbEncodingCopyRect) need = 4;
      else if (enc == rfbEncodingRichCursor) need = (size_t)w * h * bpp + (size_t)((w + 7) / 8) * h;
      else if (enc == rfbEncodingNewFBSize) need = 0;
      else if (enc == rfbEncodingExtDesktopSize) { if (av < pos + 4) return 0; need = 4 + 16 * (size_t)p[pos]; }
      else if (enc == (int32_t)rfbEncodingLastRect) { need = 0; k = nr; }
      else { wadd(c, " w%d:UNEXPECTED-ENC-%d", c, enc); b->rd = b->n; return -1; }
      if (av < pos + need) return 0;
      pos += need;
    }
    /* second pass: apply */
    wadd(c, " w%d:n=%u:[", c, nr);
    pos = 4;
    for (k = 0; k < nr; k++) {
      unsigned x = vs_get16(p + pos), y = vs_get16(p + pos + 2), w = vs_get16(p + pos + 4), h = vs_get16(p + pos + 6);
      int32_t enc = (int32_t)vs_get32(p + pos + 8); unsigned i, j;
      pos += 12;
      if (k) wadd(c, ";");
      if (enc == rfbEncodingRaw) {
        wadd(c, "%u,%u,%u,%u,R", x, y, w, h);
        { int outside = 0;
        for (j = 0; j < h; j++) for (i = 0; i < w; i++) {
          const unsigned char *q = p + pos + ((size_t)j * w + i) * bpp;
          uint32_t v = bpp == 1 ? q[0] : bpp == 2 ? (q[0] | (q[1] << 8)) : (q[0] | (q[1] << 8) | (q[2] << 16) | ((uint32_t)q[3] << 24));
          if ((int)(x + i) < pw[c] && (int)(y + j) < ph[c]) ppic[c][(size_t)(y + j) * pw[c] + x + i] = v;
          else outside = 1;
        }
        if (outside) wadd(c, "!OUTSIDE"); }
        pos += (size_t)w * h * bpp;
      } else if (enc == rfbEncodingCopyRect) {
        unsigned sx = vs_get16(p + pos), sy = vs_get16(p + pos + 2);
        wadd(c, "%u,%u,%u,%u,C,%u,%u", x, y, w, h, sx, sy);
        pos += 4;
        if ((int)(x + w) <= pw[c] && (int)(y + h) <= ph[c] && (int)(sx + w) <= pw[c] && (int)(sy + h) <= ph[c]) {
          uint32_t *tmp = (uint32_t *)malloc((size_t)w * h * 4 + 4);
          for (j = 0; j < h; j++) for (i = 0; i < w; i++) tmp[(size_t)j * w + i] = ppic[c][(size_t)(sy + j) * pw[c] + sx + i];
          for (j = 0; j < h; j++) for (i = 0; i < w; i++) ppic[c][(size_t)(y + j) * pw[c] + x + i] = tmp[(size_t)j * w + i];
          free(tmp);
        } else wadd(c, "!OUTSIDE");
      } else if (enc == rfbEncodingRichCursor) {
        wadd(c, "%u,%u,%u,%u,K", x, y, w, h);
        pos += (size_t)w * h * bpp + (size_t)((w + 7) / 8) * h;
      } else if (enc == rfbEncodingNewFBSize) {
        wadd(c, "%u,%u,N", w, h);
        peer_resize(c, w, h);
      } else if (enc == rfbEncodingExtDesktopSize) {
        unsigned ns = p[pos];
        wadd(c, "%u,%u,%u,%u,E", x, y, w, h);
        pos += 4 + 16 * (size_t)ns;
        peer_resize(c, w, h);
      } else { wadd(c, "L"); break; }
    }
    wadd(c, "]");
    b->rd += pos;
  }
}

static void drain_all(void) {
  int c;
  for (c = 0; c < ncl; c++) if (peers[c] >= 0 && cls[c]) { vs_drain(peers[c], &bufs[c]); if (lib[c]) lib_pump(c); else peer_parse(c); }
}

static void observe(const char *op) {
  int c;
  drain_all();
  printf("o %s |", op);
  for (c = 0; c < ncl; c++) if (wire[c][0]) { fputs(wire[c], stdout); wire[c][0] = 0; }
  for (c = 0; c < ncl; c++) {
    rfbClientPtr cl = cls[c];
    printf(" | c%d", c);
    if (!cl) { printf(" GONE"); continue; }          /* reaped by rfbClientConnectionGone */
    if (cl->sock < 0) { printf(" CLOSED"); continue; } /* rfbCloseClient: still in the client list */
    print_region("M", cl->modifiedRegion);
    print_region("C", cl->copyRegion);
    printf(" d=%d,%d", cl->copyDX, cl->copyDY);
    print_region("R", cl->requestedRegion);
    printf(" f=%d%d%d%d%d%d%d", cl->useCopyRect ? 1 : 0, cl->enableCursorShapeUpdates ? 1 : 0, cl->cursorWasChanged ? 1 : 0,
           cl->readyForSetColourMapEntries ? 1 : 0, cl->useNewFBSize ? 1 : 0, cl->useExtDesktopSize ? 1 : 0, cl->newFBSizePending ? 1 : 0);
    printf(" q=%d,%d sy=%d df=%ld,%ld", cl->requestedDesktopSizeChange, cl->lastDesktopSizeChangeError,
           cl->progressiveSliceY, (long)cl->startDeferring.tv_sec, (long)cl->startDeferring.tv_usec);
    if (cl->scaledScreen != cl->screen) printf(" sc=%dx%d", cl->scaledScreen->width, cl->scaledScreen->height);
    else printf(" sc=-");
    printf(" b=%d:%d sz=%dx%d P=%lu", pbpp[c], bits_of(pf[c].bpp, pf[c].rmax), pw[c], ph[c], pic_hash_peer(c));
    if (cl->scaledScreen != cl->screen) {
      /* scaled client (implementation-only cases): report whether the picture is uniform, and its value */
      int x, y, uni = 1; uint32_t v0 = ppic[c][0];
      for (y = 0; y < ph[c]; y++) for (x = 0; x < pw[c]; x++) if (ppic[c][(size_t)y * pw[c] + x] != v0) uni = 0;
      printf(" I=- scaled=%dx%d uniform=%d value=%u", cl->scaledScreen->width, cl->scaledScreen->height, uni, (unsigned)v0);
    } else printf(" I=%d", inv_check(c));
  }
  printf(" | F=%lu S=%dx%dx%d B=%d T=%d X=[", pic_hash_fb(), W, H, BPP, bits_of(BPP, scr->serverFormat.redMax), scr->deferUpdateTime);
  { rfbScreenInfoPtr q; int first = 1;
    for (q = scr->scaledScreenNext; q; q = q->scaledScreenNext) { printf("%s%dx%d", first ? "" : ";", q->width, q->height); first = 0; } }
  printf("]\n");
  fflush(stdout);
}

static void end_case(void) {
  int c;
  if (!scr) return;
  for (c = 0; c < ncl; c++) { lib_free(c); if (peers[c] >= 0) close(peers[c]); peers[c] = -1; free(bufs[c].p); memset(&bufs[c], 0, sizeof bufs[c]); free(ppic[c]); ppic[c] = NULL; }
  { char *fb = scr->frameBuffer; rfbScreenCleanup(scr); free(fb); }
  scr = NULL; ncl = 0;
}

static int hook_result = 0;
static int my_setdesktopsize(int w, int h, int n, rfbExtDesktopScreen *s, rfbClientPtr cl) { return hook_result; }

static void start_case(int w, int h, int bpp) {
  end_case();
  W = w; H = h; BPP = bpp; dead = 0; vnow_s = 1000; vnow_us = 0;
  scr = vs_screen(w, h, bpp);
  /* the process-global default cursor caches its rich-colour form in the pixel format of the
   * first screen that sent it; a later screen of another depth would read past that buffer
   * (observed under ASan, noted in notes/C02.md).  Cases are independent: drop the cache. */
  if (scr->cursor && scr->cursor->richSource) {
    if (scr->cursor->cleanupRichSource) free(scr->cursor->richSource);
    scr->cursor->richSource = NULL;
  }
  scr->setDesktopSizeHook = my_setdesktopsize;
  fbmem = scr->frameBuffer;
}

static int add_client(void) {
  int sv[2], c = ncl, k;
  rfbClientPtr cl;
  unsigned char m[4];
  if (c >= MAXC) return -1;
  if (socketpair(AF_UNIX, SOCK_STREAM, 0, sv) < 0) return -1;
  fcntl(sv[1], F_SETFL, fcntl(sv[1], F_GETFL) | O_NONBLOCK);
  { int sz = 4 << 20; setsockopt(sv[0], SOL_SOCKET, SO_SNDBUF, &sz, sizeof sz); setsockopt(sv[1], SOL_SOCKET, SO_RCVBUF, &sz, sizeof sz); }
  /* version line first: rfbNewClient's WebSocket peek returns at once */
  vs_write(sv[1], "RFB 003.008\n", 12);
  cl = rfbNewClient(scr, sv[0]);
  if (!cl) { close(sv[1]); return -1; }
  peers[c] = sv[1]; cls[c] = cl; memset(&bufs[c], 0, sizeof bufs[c]);
  rfbProcessClientMessage(cl);                 /* version -> security types */
  m[0] = 1; vs_write(sv[1], m, 1);
  rfbProcessClientMessage(cl);                 /* None -> SecurityResult */
  m[0] = 1; vs_write(sv[1], m, 1);             /* ClientInit, shared */
  rfbProcessClientMessage(cl);                 /* -> ServerInit, RFB_NORMAL */
  vs_drain(sv[1], &bufs[c]);
  /* 12 version, 1+n types, 4 result, 24+len ServerInit */
  { vs_buf *b = &bufs[c]; size_t need = 12; if (b->n < need + 1) return -2;
    need += 1 + b->p[12]; need += 4; if (b->n < need + 24) return -2;
    need += 24 + vs_get32(b->p + need + 20); if (b->n < need) return -2; b->rd = need; }
  if (cl->state != RFB_NORMAL) return -3;
  pbpp[c] = BPP;
  pf[c].bpp = BPP; pf[c].rmax = scr->serverFormat.redMax; pf[c].gmax = scr->serverFormat.greenMax; pf[c].bmax = scr->serverFormat.blueMax;
  pf[c].rs = scr->serverFormat.redShift; pf[c].gs = scr->serverFormat.greenShift; pf[c].bs = scr->serverFormat.blueShift;
  ppic[c] = NULL; peer_resize(c, W, H);
  wire[c][0] = 0;
  lib[c] = NULL; feed[c] = -1;
  if (encmode && lib_new(c) < 0) return -4;
  ncl++;
  return 0;
}

static void mark_norm(int *x1, int *y1, int *x2, int *y2, int *empty) {
  int t; *empty = 0;
  if (*x1 > *x2) { t = *x1; *x1 = *x2; *x2 = t; }
  if (*x1 < 0) *x1 = 0; if (*x2 > W) *x2 = W; if (*x1 >= *x2) *empty = 1;
  if (*y1 > *y2) { t = *y1; *y1 = *y2; *y2 = t; }
  if (*y1 < 0) *y1 = 0; if (*y2 > H) *y2 = H; if (*y1 >= *y2) *empty = 1;
}

static sraRegionPtr parse_region(char *s) {
  /* "<k> x1 y1 x2 y2 ..." */
  sraRegionPtr r = sraRgnCreate(); int k, i, n = 0, used;
  if (sscanf(s, "%d%n", &k, &used) < 1) return r;
  s += used;
  for (i = 0; i < k; i++) {
    int a, b, c, d; sraRegionPtr t;
    if (sscanf(s, "%d %d %d %d%n", &a, &b, &c, &d, &used) < 4) break;
    s += used;
    t = sraRgnCreateRect(a, b, c, d); sraRgnOr(r, t); sraRgnDestroy(t);
  }
  return r;
}
static int region_inside(sraRegionPtr r, int dx, int dy) {
  sraRectangleIterator *i = sraRgnGetIterator(r); sraRect rc; int ok = 1;
  while (sraRgnIteratorNext(i, &rc)) {
    if (!(0 <= rc.x1 && rc.x2 <= W && 0 <= rc.y1 && rc.y2 <= H)) ok = 0;
    if (!(0 <= rc.x1 - dx && rc.x2 - dx <= W && 0 <= rc.y1 - dy && rc.y2 - dy <= H)) ok = 0;
  }
  sraRgnReleaseIterator(i);
  return ok;
}
/* the application performs the copy itself, correctly (all sources read first) */
static void app_copy_simul(sraRegionPtr r, int dx, int dy) {
  char *old = (char *)malloc((size_t)W * H * BPP + 4);
  unsigned char *bm = (unsigned char *)malloc((size_t)W * H + 1);
  int x, y;
  memcpy(old, scr->frameBuffer, (size_t)W * H * BPP);
  region_bitmap(r, bm);
  for (y = 0; y < H; y++) for (x = 0; x < W; x++)
    if (bm[(size_t)y * W + x]) fb_put(scr->frameBuffer, W, BPP, x, y, fb_get(old, W, BPP, x - dx, y - dy));
  free(old); free(bm);
}

/* scaled clients: only the size bookkeeping is modelled (see scaled_guard in UpdateDefs.v) */
static int live(int c) { return c >= 0 && c < ncl && cls[c] && cls[c]->sock >= 0; }
static int noguard = 0;   /* implementation-only cases (class f12): scaled clients are driven beyond the model's scope */
static int is_scaled(int c) { return !noguard && cls[c] && cls[c]->scaledScreen != cls[c]->screen; }
static int scaled_guard(int c) { return is_scaled(c) && !(cls[c]->useNewFBSize && cls[c]->newFBSizePending); }

static void client_msg(int c, const unsigned char *m, size_t n) {
  vs_write(peers[c], m, n);
  rfbProcessClientMessage(cls[c]);
}

int main(void) {
  static char line[65536]; char op[64];
  vs_quiet();
  while (fgets(line, sizeof line, stdin)) {
    int a[12], n, used = 0; char *rest;
    size_t L = strlen(line);
    while (L && (line[L - 1] == '\n' || line[L - 1] == '\r')) line[--L] = 0;
    if (sscanf(line, "%63s%n", op, &used) < 1) continue;
    rest = line + used;
    if (!strcmp(op, "case")) {
      int k, w, h, bpp;
      if (sscanf(rest, "%d %d %d %d", &k, &w, &h, &bpp) < 4) { printf("%s\nBAD CASE\n", line); continue; }
      printf("%s\n", line); fflush(stdout);
      start_case(w, h, bpp);
      noguard = strstr(rest, " f12") != NULL;
      encmode = strstr(rest, " enc") != NULL;
      continue;
    }
    if (!scr) continue;
    if (dead) { printf("o %s | SKIPPED\n", op); continue; }
    n = sscanf(rest, "%d %d %d %d %d %d %d %d", &a[0], &a[1], &a[2], &a[3], &a[4], &a[5], &a[6], &a[7]);
    if (!strcmp(op, "addclient")) {
      int rc = add_client();
      if (rc) { printf("o addclient | ERROR %d\n", rc); dead = 1; continue; }
    } else if (!strcmp(op, "mark")) {
      rfbMarkRectAsModified(scr, a[0], a[1], a[2], a[3]);
    } else if (!strcmp(op, "draw")) {
      int x1 = a[0], y1 = a[1], x2 = a[2], y2 = a[3], e, x, y;
      mark_norm(&x1, &y1, &x2, &y2, &e);
      if (!e) for (y = y1; y < y2; y++) for (x = x1; x < x2; x++) fb_put(scr->frameBuffer, W, BPP, x, y, draw_value(BPP, a[4], x, y));
      rfbMarkRectAsModified(scr, a[0], a[1], a[2], a[3]);
    } else if (!strcmp(op, "drawpal")) {
      /* drawpal x1 y1 x2 y2 pat k c0 .. c(k-1): a few-colour diagonal pattern (palette encoders) */
      int x1 = a[0], y1 = a[1], x2 = a[2], y2 = a[3], e, x, y, k = a[5], i, u2 = 0; long cols[64]; char *q = rest;
      if (n < 6 || k < 1 || k > 64) { printf("o drawpal | ERROR\n"); dead = 1; continue; }
      for (i = 0; i < 6; i++) { long t; sscanf(q, "%ld%n", &t, &u2); q += u2; }
      for (i = 0; i < k; i++) { cols[i] = 0; if (sscanf(q, "%ld%n", &cols[i], &u2) == 1) q += u2; }
      mark_norm(&x1, &y1, &x2, &y2, &e);
      if (!e) for (y = y1; y < y2; y++) for (x = x1; x < x2; x++) {
        long long idx = ((long long)x * 3 + (long long)y * 5 + a[4]) % k; if (idx < 0) idx += k;
        fb_put(scr->frameBuffer, W, BPP, x, y, (uint32_t)cols[idx]);
      }
      rfbMarkRectAsModified(scr, a[0], a[1], a[2], a[3]);
    } else if (!strcmp(op, "schedcopy") || !strcmp(op, "docopyrgn")) {
      int dx, dy, u2; sraRegionPtr r;
      sscanf(rest, "%d %d%n", &dx, &dy, &u2);
      r = parse_region(rest + u2);
      if (!region_inside(r, dx, dy)) { printf("o %s | ERROR\n", op); dead = 1; sraRgnDestroy(r); fflush(stdout); continue; }
      if (!strcmp(op, "schedcopy")) { app_copy_simul(r, dx, dy); rfbScheduleCopyRegion(scr, r, dx, dy); }
      else rfbDoCopyRegion(scr, r, dx, dy);
      sraRgnDestroy(r);
    } else if (!strcmp(op, "docopyrect")) {
      sraRegionPtr r = sraRgnCreateRect(a[0], a[1], a[2], a[3]);
      int ok = region_inside(r, a[4], a[5]);
      sraRgnDestroy(r);
      if (!ok) { printf("o %s | ERROR\n", op); dead = 1; fflush(stdout); continue; }
      rfbDoCopyRect(scr, a[0], a[1], a[2], a[3], a[4], a[5]);
    } else if (!strcmp(op, "req")) {
      unsigned char m[10];
      if (!live(a[0]) || is_scaled(a[0])) { printf("o req | ERROR\n"); dead = 1; continue; }
      m[0] = 3; m[1] = a[1]; vs_put16(m + 2, a[2]); vs_put16(m + 4, a[3]); vs_put16(m + 6, a[4]); vs_put16(m + 8, a[5]);
      client_msg(a[0], m, 10);
    } else if (!strcmp(op, "setenc")) {
      int32_t e[8]; int k = 0; unsigned char m[4 + 4 * 8]; int i;
      if (!live(a[0])) { printf("o setenc | ERROR\n"); dead = 1; continue; }
      if (a[1]) e[k++] = rfbEncodingCopyRect;
      if (n >= 6 && a[5] != 0) e[k++] = a[5];      /* the preferred pixel encoding ("enc" cases) */
      e[k++] = rfbEncodingRaw;
      if (a[2]) e[k++] = rfbEncodingRichCursor;
      if (a[3]) e[k++] = rfbEncodingNewFBSize;
      if (a[4]) e[k++] = rfbEncodingExtDesktopSize;
      m[0] = 2; m[1] = 0; vs_put16(m + 2, k);
      for (i = 0; i < k; i++) vs_put32(m + 4 + 4 * i, (uint32_t)e[i]);
      client_msg(a[0], m, 4 + 4 * k);
      /* modelling assumption: a client without NewFBSize support knows the size out of band */
      if (!cls[a[0]]->useNewFBSize) { peer_resize(a[0], W, H); if (lib[a[0]]) lib_resize(a[0], W, H); }
    } else if (!strcmp(op, "setcursor")) {
      if (a[0] == 0) rfbSetCursor(scr, NULL);
      else {
        int w = a[3], h = a[4], i; char *src = (char *)malloc((size_t)w * h + 1), *msk = (char *)malloc((size_t)w * h + 1);
        rfbCursorPtr cur;
        for (i = 0; i < w * h; i++) { src[i] = (i & 1) ? 'x' : ' '; msk[i] = 'x'; }
        src[w * h] = msk[w * h] = 0;
        cur = rfbMakeXCursor(w, h, src, msk);
        cur->xhot = a[1]; cur->yhot = a[2];
        free(src); free(msk);
        rfbSetCursor(scr, cur);
      }
    } else if (!strcmp(op, "knobs")) {
      scr->maxRectsPerUpdate = a[0]; scr->progressiveSliceHeight = a[1];
    } else if (!strcmp(op, "tick")) {
      if (!live(a[0]) || scaled_guard(a[0])) { printf("o tick | ERROR\n"); dead = 1; continue; }
      rfbUpdateClient(cls[a[0]]);
    } else if (!strcmp(op, "send")) {
      if (!live(a[0]) || scaled_guard(a[0])) { printf("o send | ERROR\n"); dead = 1; continue; }
      rfbSendFramebufferUpdate(cls[a[0]], cls[a[0]]->modifiedRegion);
    } else if (!strcmp(op, "newfb")) {
      /* newfb w h bpp seed [bitsPerSample] : fresh buffer with known content, old one freed at once;
       * the same depth with other bits per sample is a format change too (other maxima and shifts) */
      int w = a[0], h = a[1], bpp = a[2], x, y; char *old = scr->frameBuffer;
      int bits = bpp == 1 ? 2 : (n >= 5 ? a[4] : (bpp == 2 ? 5 : 8));
      char *nb;
      if (w <= 0 || h <= 0 || !(bpp == 1 || bpp == 2 || bpp == 4) || bits < 1 || bits > (bpp == 2 ? 5 : 10)) { printf("o newfb | ERROR\n"); dead = 1; continue; }
      nb = (char *)calloc((size_t)w * h + 1, bpp);
      for (y = 0; y < h; y++) for (x = 0; x < w; x++) fb_put(nb, w, bpp, x, y, draw_value(bpp, a[3], x, y));
      rfbNewFramebuffer(scr, nb, w, h, bits, 3, bpp);
      W = w; H = h; BPP = bpp;
      if (free_old) free(old);
      { int c; for (c = 0; c < ncl; c++) if (cls[c] && !cls[c]->useNewFBSize) { peer_resize(c, W, H); if (lib[c]) lib_resize(c, W, H); } }
    } else if (!strcmp(op, "newfbu") || !strcmp(op, "fill")) {
      /* implementation-only ops (scaled clients, F12): uniform content.  newfbu w h bpp v | fill v */
      if (!strcmp(op, "fill")) {
        int x, y; for (y = 0; y < H; y++) for (x = 0; x < W; x++) fb_put(scr->frameBuffer, W, BPP, x, y, (uint32_t)a[0]);
        rfbMarkRectAsModified(scr, 0, 0, W, H);
      } else {
        int w = a[0], h = a[1], bpp = a[2], x, y; char *old = scr->frameBuffer;
        char *nb = (char *)calloc((size_t)w * h + 1, bpp);
        for (y = 0; y < h; y++) for (x = 0; x < w; x++) fb_put(nb, w, bpp, x, y, (uint32_t)a[3]);
        rfbNewFramebuffer(scr, nb, w, h, bpp == 1 ? 2 : (bpp == 2 ? 5 : 8), 3, bpp);
        W = w; H = h; BPP = bpp;
        if (free_old) free(old);
      }
    } else if (!strcmp(op, "close")) {
      /* the application (or a failed write, or a non-shared newcomer) closes the client: sock = -1, the
       * record stays in the client list until rfbProcessEvents reaps it */
      if (!live(a[0])) { printf("o close | ERROR\n"); dead = 1; continue; }
      rfbCloseClient(cls[a[0]]);
    } else if (!strcmp(op, "reap")) {
      /* what rfbProcessEvents does with closed clients */
      int c;
      for (c = 0; c < ncl; c++) if (cls[c] && cls[c]->sock < 0) { rfbClientConnectionGone(cls[c]); cls[c] = NULL; }
    } else if (!strcmp(op, "time")) {
      vnow_s = a[0]; vnow_us = a[1];
    } else if (!strcmp(op, "defer")) {
      scr->deferUpdateTime = a[0];
    } else if (!strcmp(op, "setpf")) {
      /* SetPixelFormat to the server-style format of that depth + non-incremental full request */
      int c = a[0], b = a[1]; unsigned char m[10];
      int rmax, gmax, bmax, rs, gs, bs, depth;
      if (!live(c) || is_scaled(c) || !(b == 1 || b == 2 || b == 4)) { printf("o setpf | ERROR\n"); dead = 1; continue; }
      if (b == 1) { rmax = 7; gmax = 7; bmax = 3; rs = 0; gs = 3; bs = 6; depth = 8; }
      else if (b == 2) { rmax = gmax = bmax = 31; rs = 0; gs = 5; bs = 10; depth = 16; }
      else { rmax = gmax = bmax = 255; rs = 0; gs = 8; bs = 16; depth = 32; }
      if (b == BPP) depth = scr->serverFormat.depth;     /* same depth: exactly the server's format (no translation) */
      vs_send_pixfmt(peers[c], 8 * b, depth, 0, 1, rmax, gmax, bmax, rs, gs, bs);
      rfbProcessClientMessage(cls[c]);
      pbpp[c] = b; pf[c].bpp = b; pf[c].rmax = rmax; pf[c].gmax = gmax; pf[c].bmax = bmax; pf[c].rs = rs; pf[c].gs = gs; pf[c].bs = bs;
      if (lib[c]) { lib_pump(c); lib_set_format(c, depth); lib_malloc_fb(lib[c]); }
      m[0] = 3; m[1] = 0; vs_put16(m + 2, 0); vs_put16(m + 4, 0); vs_put16(m + 6, W); vs_put16(m + 8, H);
      client_msg(c, m, 10);
    } else if (!strcmp(op, "setscale")) {
      unsigned char m[4];
      if (!live(a[0]) || a[1] <= 0) { printf("o setscale | ERROR\n"); dead = 1; continue; }
      m[0] = rfbSetScale; m[1] = a[1]; m[2] = m[3] = 0;
      client_msg(a[0], m, 4);
    } else if (!strcmp(op, "setdesktopsize")) {
      /* setdesktopsize c w h nscreens hookresult */
      unsigned char m[8 + 16 * 256]; int i, ns = a[3] & 255;
      if (!live(a[0])) { printf("o setdesktopsize | ERROR\n"); dead = 1; continue; }
      hook_result = a[4];
      memset(m, 0, sizeof m);
      m[0] = rfbSetDesktopSize; vs_put16(m + 2, a[1]); vs_put16(m + 4, a[2]); m[6] = ns;
      for (i = 0; i < ns; i++) { vs_put32(m + 8 + 16 * i, i + 1); vs_put16(m + 8 + 16 * i + 8, a[1]); vs_put16(m + 8 + 16 * i + 10, a[2]); }
      client_msg(a[0], m, 8 + 16 * (size_t)ns);
    } else { printf("o %s | UNKNOWN\n", op); continue; }
    observe(op);
  }
  end_case();
  return 0;
}
