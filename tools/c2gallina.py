#!/usr/bin/env python3
"""Translator: tiny C subset -> Gallina, re-run on every check (DESIGN.md section 3.1).

Input: spec files tools/funs.d/<name>.json
   {"functions": [{"file": "src/libvncserver/rfbregion.c", "name": "sraClipRect",
                   "fields": {"cl": ["tightCompressLevel", ...]}  (optional: struct params)}]}
Output: coq/Gen/Funs_<name>.v (one Definition per function).

Subset: parameters of integer type (-> Z), `int *` out-parameters (returned in a tuple after
the return value, in declaration order), struct-pointer parameters whose listed fields
become Z parameters `<param>_<field>`; local integer variables; statements: compound, `if`,
`if/else`, assignment, compound assignment, declaration with initialiser, `return e`;
expressions: + - * / % (C truncating: Z.quot / Z.rem), comparisons, && || !, ?:, integer
literals, casts between integer types (ignored: no wrap-around, stated in the theorems that
use the function), parentheses.  No loops, no calls.  Anything else raises an error, which
the check reports as "translator can no longer tie <function> to the model".
"""
import json, os, subprocess, sys, glob

VERIF = os.path.dirname(os.path.dirname(os.path.abspath(__file__)))


class Unsupported(Exception):
    pass


def parse_concat_json(txt):
    dec = json.JSONDecoder()
    i, objs = 0, []
    n = len(txt)
    while i < n:
        while i < n and txt[i] in " \n\r\t":
            i += 1
        if i >= n:
            break
        if txt[i] != "{":
            j = txt.find("\n", i)
            i = n if j < 0 else j + 1
            continue
        o, i = dec.raw_decode(txt, i)
        objs.append(o)
    return objs


def clang_ast(repo, incdir, cfile, fn):
    cmd = ["clang", "-fsyntax-only", "-w", "-I", os.path.join(repo, "include"), "-I", incdir,
           "-I", os.path.join(repo, "src/common"), "-I", os.path.join(repo, "src/libvncserver"),
           "-I", os.path.join(repo, "src/libvncclient"),
           "-Xclang", "-ast-dump=json", "-Xclang", "-ast-dump-filter=" + fn, os.path.join(repo, cfile)]
    p = subprocess.run(cmd, stdout=subprocess.PIPE, stderr=subprocess.PIPE, timeout=120)
    objs = parse_concat_json(p.stdout.decode("utf-8", "replace"))
    for o in objs:
        if o.get("kind") == "FunctionDecl" and o.get("name") == fn and \
           any(c.get("kind") == "CompoundStmt" for c in o.get("inner", [])):
            return o
    raise Unsupported("function %s not found (with a body) in %s" % (fn, cfile))


BOOLOPS = {"<": "Z.ltb", "<=": "Z.leb", "==": "Z.eqb"}
ARITH = {"+": "Z.add", "-": "Z.sub", "*": "Z.mul", "/": "Z.quot", "%": "Z.rem"}


class Fn:
    def __init__(self, ast, fields):
        self.ast = ast
        self.name = ast["name"]
        self.fields = fields or {}
        self.params = []      # coq parameter names (Z)
        self.outs = []        # out-parameters (int*)
        self.ptrs = set()
        self.structs = set()
        self.ret_bool = False
        body = None
        for c in ast.get("inner", []):
            if c["kind"] == "ParmVarDecl":
                ty = c["type"]["qualType"]
                nm = c["name"]
                if nm in self.fields:
                    self.structs.add(nm)
                    for f in self.fields[nm]:
                        self.params.append("%s_%s" % (nm, f))
                elif ty.replace(" ", "") in ("int*", "unsignedint*"):
                    self.ptrs.add(nm)
                    self.outs.append(nm)
                    self.params.append(nm)
                elif "*" in ty:
                    raise Unsupported("%s: pointer parameter %s : %s" % (self.name, nm, ty))
                else:
                    self.params.append(nm)
            elif c["kind"] == "CompoundStmt":
                body = c
        self.body = body
        rt = ast["type"]["qualType"].split("(")[0].strip()
        self.ret_type = rt

    # -- expressions: return (coq string, 'Z' | 'bool')
    def expr(self, e):
        k = e["kind"]
        if k in ("ImplicitCastExpr", "ParenExpr", "CStyleCastExpr", "ConstantExpr"):
            return self.expr(e["inner"][0])
        if k == "IntegerLiteral":
            v = int(e["value"])
            return ("(%d)" % v, "Z")
        if k == "DeclRefExpr":
            nm = e["referencedDecl"]["name"]
            if nm in self.ptrs:
                raise Unsupported("%s: pointer %s used as a value" % (self.name, nm))
            return (nm, "Z")
        if k == "MemberExpr":
            base = e["inner"][0]
            while base["kind"] in ("ImplicitCastExpr", "ParenExpr"):
                base = base["inner"][0]
            if base["kind"] == "DeclRefExpr" and base["referencedDecl"]["name"] in self.structs:
                b = base["referencedDecl"]["name"]
                f = e["name"]
                if f not in self.fields[b]:
                    raise Unsupported("%s: field %s->%s not declared in the spec" % (self.name, b, f))
                return ("%s_%s" % (b, f), "Z")
            raise Unsupported("%s: member expression" % self.name)
        if k == "UnaryOperator":
            op = e["opcode"]
            if op == "*":
                inner = e["inner"][0]
                while inner["kind"] in ("ImplicitCastExpr", "ParenExpr"):
                    inner = inner["inner"][0]
                if inner["kind"] == "DeclRefExpr" and inner["referencedDecl"]["name"] in self.ptrs:
                    return (inner["referencedDecl"]["name"], "Z")
                raise Unsupported("%s: dereference of a non-parameter" % self.name)
            s, t = self.expr(e["inner"][0])
            if op == "-":
                return ("(Z.opp %s)" % self.toZ(s, t), "Z")
            if op == "+":
                return (self.toZ(s, t), "Z")
            if op == "!":
                return ("(negb %s)" % self.toB(s, t), "bool")
            raise Unsupported("%s: unary operator %s" % (self.name, op))
        if k == "BinaryOperator":
            op = e["opcode"]
            a, ta = self.expr(e["inner"][0])
            b, tb = self.expr(e["inner"][1])
            if op in ARITH:
                return ("(%s %s %s)" % (ARITH[op], self.toZ(a, ta), self.toZ(b, tb)), "Z")
            if op in BOOLOPS:
                return ("(%s %s %s)" % (BOOLOPS[op], self.toZ(a, ta), self.toZ(b, tb)), "bool")
            if op == ">":
                return ("(Z.ltb %s %s)" % (self.toZ(b, tb), self.toZ(a, ta)), "bool")
            if op == ">=":
                return ("(Z.leb %s %s)" % (self.toZ(b, tb), self.toZ(a, ta)), "bool")
            if op == "!=":
                return ("(negb (Z.eqb %s %s))" % (self.toZ(a, ta), self.toZ(b, tb)), "bool")
            if op == "&&":
                return ("(andb %s %s)" % (self.toB(a, ta), self.toB(b, tb)), "bool")
            if op == "||":
                return ("(orb %s %s)" % (self.toB(a, ta), self.toB(b, tb)), "bool")
            raise Unsupported("%s: binary operator %s" % (self.name, op))
        if k == "ConditionalOperator":
            c, tc = self.expr(e["inner"][0])
            a, ta = self.expr(e["inner"][1])
            b, tb = self.expr(e["inner"][2])
            if ta == tb == "bool":
                return ("(if %s then %s else %s)" % (self.toB(c, tc), a, b), "bool")
            return ("(if %s then %s else %s)" % (self.toB(c, tc), self.toZ(a, ta), self.toZ(b, tb)), "Z")
        raise Unsupported("%s: expression kind %s" % (self.name, k))

    def toZ(self, s, t):
        return s if t == "Z" else "(if %s then 1 else 0)" % s

    def toB(self, s, t):
        return s if t == "bool" else "(negb (Z.eqb %s 0))" % s

    # -- statements
    def lhs_name(self, e):
        while e["kind"] in ("ParenExpr",):
            e = e["inner"][0]
        if e["kind"] == "DeclRefExpr":
            return e["referencedDecl"]["name"]
        if e["kind"] == "UnaryOperator" and e["opcode"] == "*":
            s, _ = self.expr(e)
            return s
        raise Unsupported("%s: assignment target" % self.name)

    def flatten(self, s):
        if s["kind"] == "CompoundStmt":
            out = []
            for c in s.get("inner", []):
                out += self.flatten(c)
            return out
        return [s]

    def assigned(self, stmts):
        vs = []
        for s in stmts:
            k = s["kind"]
            if k in ("BinaryOperator", "CompoundAssignOperator") and (k != "BinaryOperator" or s["opcode"] == "="):
                v = self.lhs_name(s["inner"][0])
                if v not in vs:
                    vs.append(v)
            elif k == "IfStmt":
                inner = s["inner"]
                for br in inner[1:]:
                    for v in self.assigned(self.flatten(br)):
                        if v not in vs:
                            vs.append(v)
            elif k == "DeclStmt":
                pass
        return vs

    def has_return(self, stmts):
        for s in stmts:
            if s["kind"] == "ReturnStmt":
                return True
            if s["kind"] == "IfStmt":
                for br in s["inner"][1:]:
                    if self.has_return(self.flatten(br)):
                        return True
        return False

    def result(self, e):
        s, t = self.expr(e)
        if self.ret_type in ("rfbBool",) or t == "bool":
            self.ret_bool = True
            s = self.toB(s, t)
        comps = [s] + self.outs
        return "(" + ", ".join(comps) + ")" if len(comps) > 1 else s

    def block(self, stmts, tail):
        """translate statements; `tail` is the Gallina text evaluated afterwards (None = must return)."""
        if not stmts:
            if tail is None:
                raise Unsupported("%s: control reaches the end without return" % self.name)
            return tail
        s, rest = stmts[0], stmts[1:]
        k = s["kind"]
        if k == "ReturnStmt":
            return self.result(s["inner"][0])
        if k == "NullStmt":
            return self.block(rest, tail)
        if k == "DeclStmt":
            out = ""
            for d in s["inner"]:
                if d["kind"] != "VarDecl":
                    raise Unsupported("%s: declaration" % self.name)
                if "inner" in d and d["inner"]:
                    v, t = self.expr(d["inner"][-1])
                    out += "let %s := %s in\n  " % (d["name"], self.toZ(v, t))
                else:
                    out += "let %s := 0 in\n  " % d["name"]
            return out + self.block(rest, tail)
        if k == "BinaryOperator" and s["opcode"] == "=":
            v = self.lhs_name(s["inner"][0])
            e, t = self.expr(s["inner"][1])
            return "let %s := %s in\n  %s" % (v, self.toZ(e, t), self.block(rest, tail))
        if k == "CompoundAssignOperator":
            v = self.lhs_name(s["inner"][0])
            e, t = self.expr(s["inner"][1])
            op = s["opcode"][:-1]
            if op not in ARITH:
                raise Unsupported("%s: operator %s" % (self.name, s["opcode"]))
            return "let %s := (%s %s %s) in\n  %s" % (v, ARITH[op], v, self.toZ(e, t), self.block(rest, tail))
        if k == "IfStmt":
            inner = s["inner"]
            c, tc = self.expr(inner[0])
            c = self.toB(c, tc)
            thn = self.flatten(inner[1])
            els = self.flatten(inner[2]) if len(inner) > 2 else []
            if self.has_return(thn) or self.has_return(els):
                return "(if %s then\n  %s\n  else\n  %s)" % (c, self.block(thn + rest, tail), self.block(els + rest, tail))
            vs = self.assigned(thn + els)
            if not vs:
                return self.block(rest, tail)
            tup = "(" + ", ".join(vs) + ")" if len(vs) > 1 else vs[0]
            pat = "'" + tup if len(vs) > 1 else tup
            return "let %s := (if %s then\n    %s\n    else\n    %s) in\n  %s" % (
                pat, c, self.block(thn, tup), self.block(els, tup), self.block(rest, tail))
        raise Unsupported("%s: statement kind %s" % (self.name, k))

    def coq(self):
        body = self.block(self.flatten(self.body), None)
        ps = " ".join("(%s : Z)" % p for p in self.params)
        return "Definition %s %s :=\n  %s.\n" % (self.name, ps, body)


def generate_one(repo, incdir, spec):
    out = ["(* GENERATED by tools/c2gallina.py from /repo on every run -- do not edit *)",
           "From Coq Require Import ZArith Bool.", "Local Open Scope Z_scope.", ""]
    for f in spec["functions"]:
        ast = clang_ast(repo, incdir, f["file"], f["name"])
        fn = Fn(ast, f.get("fields"))
        out.append("(* %s : %s *)" % (f["file"], f["name"]))
        out.append(fn.coq())
    return "\n".join(out) + "\n"


def generate_all(repo, incdir, outdir):
    """returns list of error strings"""
    errs = []
    for sp in sorted(glob.glob(os.path.join(VERIF, "tools", "funs.d", "*.json"))):
        name = os.path.basename(sp)[:-5]
        target = os.path.join(outdir, "Funs_%s.v" % name)
        spec = json.load(open(sp))
        import hashlib
        h = hashlib.sha1(json.dumps(spec, sort_keys=True).encode())
        for f in sorted(set(x["file"] for x in spec["functions"])):
            pth = os.path.join(repo, f)
            h.update(open(pth, "rb").read() if os.path.exists(pth) else b"<gone>")
        for d in (os.path.join(repo, "include", "rfb"), os.path.join(incdir, "rfb")):
            if os.path.isdir(d):
                for n in sorted(os.listdir(d)):
                    h.update(open(os.path.join(d, n), "rb").read())
        stamp = target + ".stamp"
        if os.path.exists(target) and os.path.exists(stamp) and open(stamp).read() == h.hexdigest():
            continue
        if os.path.exists(stamp):
            os.unlink(stamp)
        try:
            txt = generate_one(repo, incdir, spec)
            open(stamp + ".new", "w").write(h.hexdigest())
        except Exception as e:
            errs.append("c2gallina(%s): %s" % (name, e))
            txt = "(* translation FAILED: %s *)\nFrom Coq Require Import ZArith.\nDefinition translation_failed_%s : True := I.\n" % (str(e).replace("*)", "* )"), name)
        if not (os.path.exists(target) and open(target).read() == txt):
            os.makedirs(outdir, exist_ok=True)
            open(target, "w").write(txt)
        if os.path.exists(stamp + ".new"):
            os.replace(stamp + ".new", stamp)
    return errs


if __name__ == "__main__":
    repo, incdir = sys.argv[1], sys.argv[2]
    print(generate_one(repo, incdir, json.load(open(sys.argv[3]))))
