#!/usr/bin/env python3
"""Shared machinery for every property check (see DESIGN.md section 2).

Pipeline per check:  build implementation from /repo's working tree  ->  regenerate
coq/Gen/*.v from the source  ->  make the property's Coq modules (full .vo)  ->
Print Assumptions  ->  extract + build the OCaml model driver  ->  correspondence run
(model vs implementation on the same scripts)  ->  findings / VIOLATION / evidence.
"""
import fcntl, hashlib, json, os, re, shutil, subprocess, sys, time, glob, random

VERIF = os.path.dirname(os.path.dirname(os.path.abspath(__file__)))
REPO = os.environ.get("VERIF_REPO", "/repo")
BUILD = os.environ.get("VERIF_BUILD", os.path.join(VERIF, "build"))
COQ = os.path.join(VERIF, "coq")
GUARD = "LIBVNC_LIBVNCSERVER_VERIF"
NCPU = os.cpu_count() or 4

LINK_LIBS = ["-lz", "-ljpeg", "-lpng", "-lgcrypt", "-lgnutls", "-lssl", "-lcrypto",
             "-lsystemd", "-lsasl2", "-lpthread", "-lm"]

# axioms of the standard library / installed libraries that may appear under Print Assumptions
AXIOM_WHITELIST = {
    "functional_extensionality_dep", "FunctionalExtensionality.functional_extensionality_dep",
    "Eqdep.Eq_rect_eq.eq_rect_eq", "eq_rect_eq", "JMeq_eq", "JMeq.JMeq_eq",
    "proof_irrelevance", "ProofIrrelevance.proof_irrelevance", "classic", "Classical_Prop.classic",
    "ClassicalDedekindReals.sig_forall_dec", "ClassicalDedekindReals.sig_not_dec",
    "FunctionalExtensionality.functional_extensionality_dep",
}


def log(*a):
    print("[verif]", *a, file=sys.stderr, flush=True)


class Lock:
    """process-wide lock around build steps (checks may run in parallel)."""
    def __init__(self, name="build"):
        # the Coq tree is shared whatever VERIF_BUILD says: its lock lives in a fixed place
        base = os.path.join(VERIF, "build") if name.startswith("coq") else BUILD
        os.makedirs(base, exist_ok=True)
        self.path = os.path.join(base, "." + name + ".lock")
    def __enter__(self):
        self.f = open(self.path, "w")
        fcntl.flock(self.f, fcntl.LOCK_EX)
        return self
    def __exit__(self, *a):
        fcntl.flock(self.f, fcntl.LOCK_UN)
        self.f.close()


def run(cmd, timeout=None, cwd=None, env=None, input=None, check=False):
    """run a command, return (rc, stdout+stderr text). rc=124 on timeout."""
    try:
        p = subprocess.run(cmd, cwd=cwd, env=env, input=input, stdout=subprocess.PIPE,
                           stderr=subprocess.STDOUT, timeout=timeout,
                           shell=isinstance(cmd, str))
        out = p.stdout.decode("utf-8", "replace") if isinstance(p.stdout, bytes) else p.stdout
        rc = p.returncode
    except subprocess.TimeoutExpired as e:
        out = (e.stdout or b"").decode("utf-8", "replace") + "\n[timeout]"
        rc = 124
    if check and rc != 0:
        raise RuntimeError("command failed (%d): %s\n%s" % (rc, cmd, out[-4000:]))
    return rc, out


# ----------------------------------------------------------------------------------------
# implementation build (from /repo's current working tree)

SRC_ROOTS = ["src", "include", "cmake", "CMakeLists.txt", "test/wstestdata.inc"]


def repo_tree_hash():
    h = hashlib.sha1()
    files = []
    for r in SRC_ROOTS:
        p = os.path.join(REPO, r)
        if os.path.isdir(p):
            for d, _, fs in os.walk(p):
                for f in fs:
                    files.append(os.path.join(d, f))
        elif os.path.exists(p):
            files.append(p)
    for f in sorted(files):
        h.update(os.path.relpath(f, REPO).encode())
        h.update(b"\0")
        try:
            with open(f, "rb") as fh:
                h.update(hashlib.sha1(fh.read()).digest())
        except OSError:
            pass
    return h.hexdigest()


VARIANTS = {
    # name: (c flags, build type)
    "asan": ("-O1 -g -fsanitize=address -fno-omit-frame-pointer -fno-common -D%s" % GUARD, "Debug"),
    "plain": ("-O1 -g -fno-omit-frame-pointer -D%s" % GUARD, "Debug"),
    "ubsan": ("-O1 -g -fsanitize=address,integer-divide-by-zero,bounds -fno-sanitize-recover=all "
              "-fno-omit-frame-pointer -D%s" % GUARD, "Debug"),
    "tsan": ("-O1 -g -fsanitize=thread -fno-omit-frame-pointer -D%s" % GUARD, "Debug"),
}


def build_impl(variant="asan"):
    """Build static libvncserver.a / libvncclient.a of /repo's working tree with the repo's own
    CMake.  Cached on a hash of the source tree.  Returns the build directory."""
    flags, btype = VARIANTS[variant]
    bdir = os.path.join(BUILD, "impl_" + variant)
    with Lock("impl_" + variant):
        h = repo_tree_hash()
        stamp = os.path.join(bdir, ".verif_stamp")
        if os.path.exists(stamp) and open(stamp).read().strip() == h and \
           os.path.exists(os.path.join(bdir, "libvncserver.a")) and \
           os.path.exists(os.path.join(bdir, "libvncclient.a")):
            return bdir
        t0 = time.time()
        os.makedirs(bdir, exist_ok=True)
        if os.path.exists(stamp):
            os.unlink(stamp)
        if not os.path.exists(os.path.join(bdir, "build.ninja")):
            rc, out = run(["cmake", "-S", REPO, "-B", bdir, "-G", "Ninja", "-DBUILD_SHARED_LIBS=OFF",
                           "-DWITH_EXAMPLES=OFF", "-DWITH_TESTS=OFF", "-DCMAKE_BUILD_TYPE=" + btype,
                           "-DWITH_SDL=OFF", "-DWITH_GTK=OFF", "-DWITH_QT=OFF", "-DWITH_FFMPEG=OFF",
                           "-DWITH_XCB=OFF", "-DWITH_LIBSSHTUNNEL=OFF",
                           "-DCMAKE_EXPORT_COMPILE_COMMANDS=OFF",
                           "-DCMAKE_C_FLAGS=" + flags], timeout=600)
            if rc != 0:
                raise BuildError("cmake configure failed for %s:\n%s" % (variant, out[-3000:]))
        rc, out = run(["ninja", "-C", bdir, "vncserver", "vncclient"], timeout=1200)
        if rc != 0:
            # a stale configuration can be the cause: retry once from scratch
            shutil.rmtree(bdir, ignore_errors=True)
            os.makedirs(bdir)
            rc2, out2 = run(["cmake", "-S", REPO, "-B", bdir, "-G", "Ninja", "-DBUILD_SHARED_LIBS=OFF",
                             "-DWITH_EXAMPLES=OFF", "-DWITH_TESTS=OFF", "-DCMAKE_BUILD_TYPE=" + btype,
                             "-DWITH_SDL=OFF", "-DWITH_GTK=OFF", "-DWITH_QT=OFF", "-DWITH_FFMPEG=OFF",
                             "-DWITH_XCB=OFF", "-DWITH_LIBSSHTUNNEL=OFF",
                             "-DCMAKE_EXPORT_COMPILE_COMMANDS=OFF",
                             "-DCMAKE_C_FLAGS=" + flags], timeout=600)
            if rc2 == 0:
                rc, out = run(["ninja", "-C", bdir, "vncserver", "vncclient"], timeout=1200)
            if rc != 0:
                raise BuildError("implementation does not build (%s):\n%s" % (variant, out[-3000:]))
        # a source edited while the build was running can leave an object that is newer than the edited
        # file (ninja then believes it is up to date for ever): if the tree changed during the build,
        # mark every source as new and build again
        for _ in range(3):
            h2 = repo_tree_hash()
            if h2 == h:
                break
            h = h2
            now = time.time()
            for r in SRC_ROOTS:
                for d, _, fs in os.walk(os.path.join(REPO, r)):
                    for f in fs:
                        try:
                            os.utime(os.path.join(d, f), (now, now))
                        except OSError:
                            pass
            rc, out = run(["ninja", "-C", bdir, "vncserver", "vncclient"], timeout=1200)
            if rc != 0:
                raise BuildError("implementation does not build (%s):\n%s" % (variant, out[-3000:]))
        with open(stamp, "w") as f:
            f.write(h)
        log("implementation (%s) built in %.1fs" % (variant, time.time() - t0))
    return bdir


class BuildError(Exception):
    pass


def san_flags(variant):
    return VARIANTS[variant][0].split()


def build_harness(name, sources, variant="asan", wraps=(), extra_cflags=(), extra_libs=(),
                  client=False, server=True):
    """compile harness C sources against the static libraries of the given variant."""
    bdir = build_impl(variant)
    out = os.path.join(BUILD, "harness", variant)
    os.makedirs(out, exist_ok=True)
    exe = os.path.join(out, name)
    srcs = [s if os.path.isabs(s) else os.path.join(VERIF, "harness", s) for s in sources]
    # every file of harness/ is a dependency (harness sources #include one another)
    deps = srcs + [os.path.join(bdir, ".verif_stamp")] + sorted(
        f for f in glob.glob(os.path.join(VERIF, "harness", "*.[ch]")) if f not in srcs)
    key = hashlib.sha1()
    for d in deps:
        key.update(open(d, "rb").read())
    key.update(repr((wraps, extra_cflags, extra_libs, client, server)).encode())
    for lib in ("libvncserver.a", "libvncclient.a"):      # relink whenever the libraries were rebuilt
        st = os.stat(os.path.join(bdir, lib))
        key.update(("%s:%d:%d" % (lib, st.st_size, st.st_mtime_ns)).encode())
    stamp = exe + ".stamp"
    with Lock("harness_" + name + "_" + variant):
        if os.path.exists(exe) and os.path.exists(stamp) and open(stamp).read() == key.hexdigest():
            return exe
        cmd = ["gcc"] + san_flags(variant) + ["-w", "-I", os.path.join(REPO, "include"),
               "-I", os.path.join(bdir, "include"), "-I", os.path.join(REPO, "src", "libvncserver"),
               "-I", os.path.join(REPO, "src", "common"), "-I", os.path.join(REPO, "src", "libvncclient"),
               "-I", os.path.join(VERIF, "harness")] + list(extra_cflags) + srcs + ["-o", exe]
        if wraps:
            cmd.append("-Wl," + ",".join("--wrap=" + w for w in wraps))
        if server:
            cmd.append(os.path.join(bdir, "libvncserver.a"))
        if client:
            cmd.append(os.path.join(bdir, "libvncclient.a"))
        cmd += LINK_LIBS + list(extra_libs)
        rc, o = run(cmd, timeout=600)
        if rc != 0:
            raise BuildError("harness %s does not build:\n%s" % (name, o[-4000:]))
        with open(stamp, "w") as f:
            f.write(key.hexdigest())
    return exe


# ----------------------------------------------------------------------------------------
# Coq side

def write_if_changed(path, text):
    if os.path.exists(path) and open(path).read() == text:
        return False
    os.makedirs(os.path.dirname(path), exist_ok=True)
    with open(path, "w") as f:
        f.write(text)
    return True


def regen():
    """regenerate coq/Gen/*.v from /repo (translator).  Returns a list of error strings."""
    sys.path.insert(0, os.path.join(VERIF, "tools"))
    import gen_consts, c2gallina
    incdir = os.path.join(build_impl("asan"), "include")
    gen = os.path.join(COQ, "Gen")
    return gen_consts.generate_all(REPO, incdir, gen) + c2gallina.generate_all(REPO, incdir, gen)


def coq_files():
    fs = []
    for d, _, names in os.walk(COQ):
        for n in names:
            if n.endswith(".v"):
                fs.append(os.path.relpath(os.path.join(d, n), COQ))
    return sorted(fs)


def coq_prepare():
    proj = "-Q . LV\n-arg -w -arg -all\n" + "\n".join(coq_files()) + "\n"
    changed = write_if_changed(os.path.join(COQ, "_CoqProject"), proj)
    if changed or not os.path.exists(os.path.join(COQ, "Makefile")):
        run(["coq_makefile", "-f", "_CoqProject", "-o", "Makefile"], cwd=COQ, check=True)


def coq_make(targets, timeout=1800):
    """make -k the given .vo targets (full build, never -vos).  Returns (ok, log).
    A short global lock covers translator + Makefile + dependency regeneration; the compilation
    itself only takes a lock per target set, so different properties build concurrently.
    A translator failure only counts for the targets that depend on the module it could not generate."""
    with Lock("coq"):
        errs = regen()
        coq_prepare()
        run(["make", ".Makefile.d"], cwd=COQ, timeout=600)
    closure = dep_closure(list(targets)) or []
    mine = []
    for e in errs:
        m = re.match(r"(gen_consts|c2gallina)\((\w+)\)", e)
        if not m:
            mine.append(e)
            continue
        gen = "Gen/%s_%s.v" % ("Consts" if m.group(1) == "gen_consts" else "Funs", m.group(2))
        if gen in closure or not closure:
            mine.append(e)
    errs = mine
    key = hashlib.sha1(" ".join(sorted(targets)).encode()).hexdigest()[:10]
    with Lock("coqmake_" + key):
        rc, out = run(["make", "-k", "-j%d" % max(4, NCPU // 2)] + list(targets), cwd=COQ, timeout=timeout)
    if errs:
        out = "\n".join(errs) + "\n" + out
        rc = rc or 1
    return rc == 0, out


def dep_closure(targets):
    """transitive .v dependencies of the given .vo targets, from coq_makefile's .Makefile.d"""
    deps = {}
    p = os.path.join(COQ, ".Makefile.d")
    if not os.path.exists(p):
        return None
    for line in open(p).read().replace("\\\n", " ").split("\n"):
        if ":" not in line:
            continue
        lhs, rhs = line.split(":", 1)
        outs = [x for x in lhs.split() if x.endswith(".vo")]
        ins = [x for x in rhs.split() if x.endswith(".vo")]
        for o in outs:
            deps.setdefault(o, set()).update(ins)
    seen, todo = set(), [t for t in targets]
    while todo:
        t = todo.pop()
        if t in seen:
            continue
        seen.add(t)
        todo += list(deps.get(t, ()))
    return sorted(x[:-1] for x in seen)


def forbidden_scan(files=None):
    """no Admitted/admit/Axiom/Parameter/... in the given files (default: whole development)."""
    bad = []
    pat = re.compile(r"\b(Admitted|admit|Axiom|Axioms|Parameter|Parameters|Conjecture|Abort All|"
                     r"Unset Guard Checking|Unset Positivity Checking|Unset Universe Checking|"
                     r"bypass_check|Admit Obligations|native_compute)\b")
    for f in (files if files is not None else coq_files()):
        if not os.path.exists(os.path.join(COQ, f)):
            continue
        txt = open(os.path.join(COQ, f)).read()
        txt = re.sub(r"\(\*.*?\*\)", "", txt, flags=re.S)
        # Variable/Hypothesis outside a section
        depth = 0
        for i, line in enumerate(txt.split("\n"), 1):
            if pat.search(line):
                bad.append("%s:%d: %s" % (f, i, line.strip()))
            if re.match(r"\s*Section\s", line):
                depth += 1
            elif re.match(r"\s*End\s", line) and depth > 0:
                depth -= 1
            elif depth == 0 and re.match(r"\s*(Variable|Variables|Hypothesis|Hypotheses|Context)\b", line):
                bad.append("%s:%d: section-less %s" % (f, i, line.strip()))
    return bad


def theorems_of(prop_file):
    txt = open(os.path.join(COQ, prop_file)).read()
    txt = re.sub(r"\(\*.*?\*\)", "", txt, flags=re.S)
    return re.findall(r"^\s*Theorem\s+([A-Za-z0-9_']+)", txt, flags=re.M)


def print_assumptions(pid, prop_file):
    """Re-query Print Assumptions for every Theorem of the property module (always fresh).
    returns dict name -> list of axioms (or None if the theorem is not available)."""
    thms = theorems_of(prop_file)
    mod = "LV." + prop_file[:-2].replace("/", ".")
    d = os.path.join(BUILD, "assum")
    os.makedirs(d, exist_ok=True)
    res = {}
    if not os.path.exists(os.path.join(COQ, prop_file + "o")):
        return {t: None for t in thms}
    src = "Require Import %s.\n" % mod
    for t in thms:
        src += 'Goal True. idtac "@@BEGIN %s". Abort.\nPrint Assumptions %s.\nGoal True. idtac "@@END %s". Abort.\n' % (t, t, t)
    fn = os.path.join(d, "Assum_%s.v" % pid)
    with open(fn, "w") as f:
        f.write(src)
    rc, out = run(["coqc", "-Q", COQ, "LV", "-w", "-all", fn], timeout=600, cwd=d)
    for t in thms:
        m = re.search(r"@@BEGIN %s\n(.*?)@@END %s" % (re.escape(t), re.escape(t)), out, flags=re.S)
        if not m:
            res[t] = None
            continue
        body = m.group(1)
        if "Closed under the global context" in body:
            res[t] = []
        else:
            ax = re.findall(r"^([A-Za-z_][A-Za-z0-9_.']*)\s*:", body, flags=re.M)
            res[t] = [a for a in ax if a not in ("Axioms", "Fetching", "Opaque", "Transparent")]
    return res


def build_ocaml(pid, driver, extract_vo):
    """Extraction module coq/Extract/Extract_<pid>.v writes build/ocaml/<pid>/model.ml (relative
    path ../build/...); compile it with the hand-written driver (parsing/printing only)."""
    d = os.path.join(BUILD, "ocaml", pid)
    os.makedirs(d, exist_ok=True)
    exe = os.path.join(d, "driver")
    # the Extraction command writes relative to coq/: always VERIF/build/ocaml/<pid>/
    xd = os.path.join(VERIF, "build", "ocaml", pid)
    os.makedirs(xd, exist_ok=True)
    if not os.path.exists(os.path.join(xd, "model.ml")) and extract_vo:
        # .vo cached but the extracted file is gone (fresh build dir): re-run the extraction
        vo = os.path.join(COQ, extract_vo)
        if os.path.exists(vo):
            os.unlink(vo)
        coq_make([extract_vo])
    if not os.path.exists(os.path.join(xd, "model.ml")):
        raise BuildError("extraction produced no model.ml for %s" % pid)
    if os.path.abspath(xd) != os.path.abspath(d):
        for fn in ("model.ml", "model.mli"):
            shutil.copy(os.path.join(xd, fn), os.path.join(d, fn))
    ml, mli = os.path.join(d, "model.ml"), os.path.join(d, "model.mli")
    drv = os.path.join(VERIF, "ocaml", driver)
    key = hashlib.sha1(open(ml, "rb").read() + open(drv, "rb").read() +
                       open(os.path.join(VERIF, "ocaml", "vutil.ml"), "rb").read()).hexdigest()
    stamp = exe + ".stamp"
    with Lock("ocaml_" + pid):
        if os.path.exists(exe) and os.path.exists(stamp) and open(stamp).read() == key:
            return exe
        shutil.copy(drv, os.path.join(d, "driver.ml"))
        shutil.copy(os.path.join(VERIF, "ocaml", "vutil.ml"), os.path.join(d, "vutil.ml"))
        rc, out = run(["ocamlfind", "ocamlopt", "-w", "-a", "-package", "str", "-linkpkg",
                       "model.mli", "model.ml", "vutil.ml", "driver.ml", "-o", "driver"], cwd=d, timeout=600)
        if rc != 0:
            raise BuildError("OCaml model driver for %s does not build:\n%s" % (pid, out[-3000:]))
        with open(stamp, "w") as f:
            f.write(key)
    return exe


# ----------------------------------------------------------------------------------------
# findings, violations, evidence

def load_findings():
    """known_findings.json (committed, merged view) + per-property sources known_findings.d/<ID>.json
    (same format; an id present in both is taken once, the per-property file winning)."""
    out, seen = [], set()
    files = sorted(glob.glob(os.path.join(VERIF, "known_findings.d", "*.json"))) + \
        [os.path.join(VERIF, "known_findings.json")]
    for q in files:
        if not os.path.exists(q):
            continue
        for f in json.load(open(q)).get("findings", []):
            k = (f.get("property"), f.get("id"))
            if k in seen:
                continue
            seen.add(k)
            out.append(f)
    return out


def match_finding(pid, features):
    """a 'known' entry matches when every key of its `match` equals (or contains, for lists)
    the feature value of the failing case.  'fixed' entries never suppress."""
    for f in load_findings():
        if f.get("property") != pid or f.get("status") != "known":
            continue
        ok = True
        for k, v in f.get("match", {}).items():
            fv = features.get(k)
            if isinstance(v, list):
                if fv not in v:
                    ok = False
            elif isinstance(v, dict):
                if "min" in v and not (fv is not None and fv >= v["min"]):
                    ok = False
                if "max" in v and not (fv is not None and fv <= v["max"]):
                    ok = False
            elif fv != v:
                ok = False
        if ok:
            return f
    return None


class Ctx:
    """per-run context handed to the property module."""
    def __init__(self, pid, tier, seed):
        self.pid, self.tier, self.seed = pid, tier, seed
        self.rng = random.Random(seed * 1000003 + sum(map(ord, pid)))
        self.t0 = time.time()
        self.violations = []      # dicts: what, features, replay_text, no_input(bool)
        self.known = []
        self.coverage = {}
        self.assumptions = []
        self.scratch = os.path.join(BUILD, "scratch", pid)
        shutil.rmtree(self.scratch, ignore_errors=True)
        os.makedirs(self.scratch, exist_ok=True)
        self.proof_ok = True
        self.proof_log = ""
        self.proof_problems = []
        if "--replay" not in sys.argv:
            for f in glob.glob(os.path.join(VERIF, "replays", "%s_*.replay" % pid)):
                os.unlink(f)

    def quick(self):
        return self.tier == "quick"

    def violation(self, what, features=None, replay_text="", no_input=False):
        features = features or {}
        kf = None if no_input else match_finding(self.pid, features)
        if kf is not None:
            key = kf.get("id")
            if key not in [k.get("id") for k in self.known]:
                self.known.append(kf)
            return False
        self.violations.append(dict(what=what, features=features, replay_text=replay_text,
                                    no_input=no_input))
        return True


def sanitize_coverage(cov):
    """keep the schema-typed keys of the evidence well-typed whatever a property module put there"""
    if "exhaustive" in cov and not isinstance(cov["exhaustive"], bool):
        cov["exhaustive_note"] = str(cov["exhaustive"])
        cov["exhaustive"] = False
    for k in ("evaluations", "distinct_nontrivial", "states", "transitions", "traces_validated_against_impl",
              "obligations", "discharged", "programs", "disagreements_checked"):
        if k in cov and not isinstance(cov[k], int):
            try:
                cov[k] = int(cov[k])
            except Exception:
                cov[k + "_note"] = str(cov.pop(k))
        if k in cov and cov[k] < 0:
            cov[k] = 0
    if "samples" in cov and not isinstance(cov["samples"], list):
        cov["samples"] = [cov["samples"]]
    if "trusted_base" in cov:
        cov["trusted_base"] = [str(x) for x in cov["trusted_base"]]
    for k in ("rule", "checker_cmd", "explanation"):
        if k in cov and not isinstance(cov[k], str):
            cov[k] = json.dumps(cov[k])
    return cov


def finish(ctx, level="proof"):
    os.makedirs(os.path.join(VERIF, "replays"), exist_ok=True)
    os.makedirs(os.path.join(VERIF, "evidence"), exist_ok=True)
    for kf in ctx.known:
        print("KNOWN-FINDING: property=%s %s [%s]" % (ctx.pid, kf.get("what", ""), kf.get("id", "")))
    seen = set()
    nviol = 0
    for i, v in enumerate(ctx.violations):
        key = json.dumps(v["features"], sort_keys=True) + v["what"][:80]
        if key in seen:
            continue
        seen.add(key)
        if nviol >= 8:
            break
        path = os.path.join(VERIF, "replays", "%s_%d_%d.replay" % (ctx.pid, ctx.seed, nviol))
        with open(path, "w") as f:
            f.write("property: %s\nseed: %d\ntier: %s\nwhat: %s\nfeatures: %s\n\n%s\n" %
                    (ctx.pid, ctx.seed, ctx.tier, v["what"], json.dumps(v["features"], sort_keys=True),
                     v["replay_text"]))
        tail = " no-failing-input-found" if v["no_input"] else ""
        print("VIOLATION property=%s replay=%s%s" % (ctx.pid, path, tail))
        print("  what: %s" % " ".join(str(v["what"]).split())[:400])
        nviol += 1
    cov = sanitize_coverage(dict(ctx.coverage))
    ev = dict(property_id=ctx.pid, tier=ctx.tier, seed=ctx.seed, level=level, coverage=cov,
              assumptions=ctx.assumptions, wall_s=round(time.time() - ctx.t0, 2),
              violations=nviol, known_findings=[k.get("id") for k in ctx.known])
    # the committed evidence describes runs against /repo itself: a run against another tree
    # (VERIF_REPO set by tools/run_seed.py for a seeded change) records its evidence with its build
    evdir = os.path.join(VERIF, "evidence") if os.path.realpath(REPO) == "/repo" else os.path.join(BUILD, "evidence")
    os.makedirs(evdir, exist_ok=True)
    with open(os.path.join(evdir, ctx.pid + ".json"), "w") as f:
        json.dump(ev, f, indent=1, sort_keys=True)
        f.write("\n")
    return 1 if nviol else 0


def prove(ctx, prop_file, extra_targets=()):
    """step 3 of the pipeline.  Fills ctx.coverage proof keys; returns True when every
    obligation is discharged with no foreign axiom."""
    targets = [prop_file + "o"] + [t for t in extra_targets]
    ok, out = coq_make(targets)
    ctx.proof_log = out
    closure = dep_closure(targets)
    bad = forbidden_scan(closure)
    other = [b for b in forbidden_scan() if b not in bad] if closure is not None else []
    ctx.coverage["forbidden_scan"] = {"files_in_dependency_closure": len(closure) if closure else 0,
                                      "hits_in_closure": bad, "hits_elsewhere_in_development": other[:20]}
    assum = print_assumptions(ctx.pid, prop_file)
    thms = list(assum.keys())
    discharged = 0
    tb = []
    problems = []
    for t in thms:
        ax = assum[t]
        if ax is None:
            problems.append("theorem %s is not established (module does not compile)" % t)
            continue
        foreign = [a for a in ax if a not in AXIOM_WHITELIST and a.split(".")[-1] not in AXIOM_WHITELIST
                   and not a.startswith("PrimFloat.") and not a.startswith("PrimInt63.")
                   and not a.startswith("Uint63.") and not a.startswith("FloatAxioms.")
                   and not a.startswith("Floats.") and not a.startswith("Sint63.")]
        if foreign:
            problems.append("theorem %s depends on non-standard axioms %s" % (t, foreign))
            continue
        discharged += 1
        tb.append("Print Assumptions %s: %s" % (t, ", ".join(ax) if ax else "Closed under the global context"))
    if bad:
        problems.append("forbidden declarations: " + "; ".join(bad[:10]))
    if not ok:
        m = re.findall(r'File "([^"]+)", line (\d+).*?\n(Error:.*?)(?:\n\n|\nmake|\Z)', out, flags=re.S)
        for (f, l, e) in m[:5]:
            problems.append("%s:%s %s" % (f, l, " ".join(e.split())[:400]))
        if not m:
            problems.append("make failed: " + out[-600:])
    ctx.coverage.update(obligations=len(thms), discharged=discharged if not bad else 0,
                        checker_cmd="make -k -j%d %s (coqc 8.16.1, full .vo build) + Print Assumptions per theorem"
                        % (NCPU, " ".join(targets)),
                        trusted_base=TRUSTED_BASE_COMMON + tb, theorems=thms)
    ctx.proof_ok = (ok and not problems and discharged == len(thms) and len(thms) > 0)
    ctx.proof_problems = problems
    if ctx.tier == "thorough" and ctx.proof_ok and os.environ.get("VERIF_NO_COQCHK") != "1":
        # independent re-check of the compiled property module and everything it depends on
        mod = "LV." + prop_file[:-2].replace("/", ".")
        rc, out = run(["coqchk", "-o", "-silent", "-Q", COQ, "LV", mod], timeout=3600, cwd=COQ)
        summary = out[out.find("CONTEXT SUMMARY"):] if "CONTEXT SUMMARY" in out else out[-1500:]
        ctx.coverage["coqchk"] = {"rc": rc, "summary": " ".join(summary.split())[:1500]}
        if rc != 0:
            ctx.proof_ok = False
            ctx.proof_problems = problems + ["coqchk rejects %s: %s" % (mod, out[-400:])]
        elif "Axioms: <none>" not in " ".join(summary.split()):
            ctx.coverage["trusted_base"].append("coqchk -o %s: %s" % (mod, " ".join(summary.split())[:600]))
        else:
            ctx.coverage["trusted_base"].append("coqchk -o %s: Axioms: <none>; no type-in-type, no unsafe fixpoints, no assumed positivity" % mod)
    return ctx.proof_ok


TRUSTED_BASE_COMMON = [
    "Coq 8.16.1 kernel (coqc, vm_compute for finite sweeps/witnesses; no native_compute)",
    "translators tools/gen_consts.py (gcc-compiled constant printer over /repo headers + regex scraping of file-private #defines) and tools/c2gallina.py (clang AST -> Gallina for loop-free integer leaf functions; C int modelled as Z)",
    "Coq extraction with ExtrOcamlBasic only (no Extract Constant; Z/N/positive/nat stay inductive), OCaml 4.13.1, ocaml/driver_*.ml (parsing/printing)",
    "correspondence harness harness/*.c linked against libvncserver.a/libvncclient.a rebuilt from /repo's working tree (ASan), generators and diff in props/*.py: differential testing bounds, does not prove, model<->code agreement",
]


def report_proof_failure(ctx, searched_text=""):
    """proof obligations broke and no concrete failing input was found."""
    txt = "The following obligations no longer check:\n" + "\n".join(ctx.proof_problems) + \
          "\n\n" + searched_text + "\n\n--- tail of make output ---\n" + ctx.proof_log[-3000:]
    ctx.violation("proof obligations of %s no longer check: %s" % (ctx.pid, "; ".join(ctx.proof_problems)[:300]),
                  features={"kind": "proof"}, replay_text=txt, no_input=True)


# ----------------------------------------------------------------------------------------
# correspondence helpers (script drivers speaking "one observation line per op",
# with lines starting with "case " separating independent cases)

def run_driver(exe, script_text, timeout=600, env=None, unlimited_stack=False):
    e = dict(os.environ)
    e["ASAN_OPTIONS"] = "detect_leaks=0:abort_on_error=0:allocator_may_return_null=1"
    if env:
        e.update(env)
    cmd = [exe] if not isinstance(exe, list) else exe
    if unlimited_stack:
        cmd = ["bash", "-c", "ulimit -s unlimited 2>/dev/null || ulimit -s 1000000; exec \"$@\"", "x"] + cmd
    try:
        p = subprocess.run(cmd, input=script_text.encode(), stdout=subprocess.PIPE,
                           stderr=subprocess.PIPE, timeout=timeout, env=e)
        return p.returncode, p.stdout.decode("utf-8", "replace"), p.stderr.decode("utf-8", "replace")
    except subprocess.TimeoutExpired as ex:
        return 124, (ex.stdout or b"").decode("utf-8", "replace"), "[timeout]"


def split_cases(text):
    """-> list of (header, [lines])"""
    cases, cur = [], None
    for line in text.split("\n"):
        if line.startswith("case "):
            cur = (line, [])
            cases.append(cur)
        elif cur is not None and line != "":
            cur[1].append(line)
    return cases


def first_diff(a_lines, b_lines):
    for i in range(max(len(a_lines), len(b_lines))):
        x = a_lines[i] if i < len(a_lines) else "<missing>"
        y = b_lines[i] if i < len(b_lines) else "<missing>"
        if x != y:
            return i, x, y
    return None


def ddmin(items, fails, max_tests=400):
    """delta debugging: smallest sublist (order kept) for which fails(sublist) is true."""
    n, tests = 2, 0
    items = list(items)
    while len(items) >= 2 and tests < max_tests:
        chunk = max(1, len(items) // n)
        subsets = [items[i:i + chunk] for i in range(0, len(items), chunk)]
        reduced = False
        for i in range(len(subsets)):
            comp = [x for j, s in enumerate(subsets) if j != i for x in s]
            tests += 1
            if comp and fails(comp):
                items, n, reduced = comp, max(n - 1, 2), True
                break
        if not reduced:
            if n >= len(items):
                break
            n = min(len(items), n * 2)
    return items
