#!/usr/bin/env python3
"""lead's helper: add/replace the MANIFEST.json check entry of a property from the JSON block at the
end of notes/<ID>.md (fields normalised to the schema).  usage: manifest_add.py C09 [C14 ...]"""
import json, os, re, sys
V = os.path.dirname(os.path.dirname(os.path.abspath(__file__)))

def proposed(pid):
    txt = open(os.path.join(V, "notes", pid + ".md")).read()
    blocks = re.findall(r"```json\s*(\{.*?\})\s*```", txt, flags=re.S)
    for b in reversed(blocks):
        try:
            j = json.loads(b)
        except Exception:
            continue
        if j.get("property_id") == pid or "level_claimed" in j:
            return j
    return {}

def main():
    m = json.load(open(os.path.join(V, "MANIFEST.json")))
    for pid in sys.argv[1:]:
        j = proposed(pid)
        lc = j.get("level_claimed", {})
        text = lc.get("text") or j.get("level_text") or ""
        cat = lc.get("category") or lc.get("level") or "proof"
        if cat not in ("exploration", "fault_enumeration", "model_checking", "proof", "translation_validation", "other"):
            cat = "proof"
        e = {"property_id": pid,
             "quick_cmd": "python3 tools/check.py %s --tier quick" % pid,
             "thorough_cmd": "python3 tools/check.py %s --tier thorough" % pid,
             "evidence_file": "evidence/%s.json" % pid,
             "replay_cmd_template": "python3 tools/check.py %s --replay {path}" % pid,
             "engine": "coq-mirror-model+correspondence",
             "level_claimed": {"category": cat, "text": text, "design_ref": "DESIGN.md 5 (%s); notes/%s.md" % (pid, pid)},
             "level_note": j.get("level_note", ""),
             "technique": j.get("technique", "Coq proof over mirror model + differential correspondence")}
        if not text:
            print("WARNING: no level text for", pid)
        m["checks"] = [c for c in m["checks"] if c["property_id"] != pid] + [e]
        m["checks"].sort(key=lambda c: c["property_id"])
        m["not_applicable"] = [n for n in m.get("not_applicable", []) if n["property_id"] != pid]
        for eng in m.get("engines", []):
            if pid not in eng["serves_properties"]:
                eng["serves_properties"] = sorted(eng["serves_properties"] + [pid])
    json.dump(m, open(os.path.join(V, "MANIFEST.json"), "w"), indent=1)
    print("checks:", [c["property_id"] for c in m["checks"]])

if __name__ == "__main__":
    main()
