#!/usr/bin/env python3
"""Confirm an independently written breaking change before keeping it under seeded/:
   tools/confirm_seed.py <src_dir_with patch.diff run.sh ...> <seed_name>
In a scratch worktree of /repo (outside /repo and /verif, removed afterwards):
  1. demo on the unmodified tree must PASS (exit 0);
  2. patch applies; the project builds; the registered test suite passes (ctest);
  3. demo on the patched tree must FAIL (exit != 0).
On success copies the files to /verif/seeded/<seed_name>/ and writes confirmed.json there."""
import json, os, shutil, subprocess, sys, time

def sh(cmd, cwd=None, timeout=1800):
    p = subprocess.run(cmd, shell=True, cwd=cwd, stdout=subprocess.PIPE, stderr=subprocess.STDOUT, timeout=timeout)
    return p.returncode, p.stdout.decode("utf-8", "replace")

def main():
    src, name = sys.argv[1], sys.argv[2]
    wt = "/tmp/seedchk_" + name
    sh("git -C /repo worktree remove --force %s" % wt)
    shutil.rmtree(wt, ignore_errors=True)
    rc, out = sh("git -C /repo worktree add --detach %s HEAD" % wt)
    res = {"seed": name, "repo_head": sh("git -C /repo rev-parse HEAD")[1].strip(), "steps": []}
    ok = False
    try:
        rc1, o1 = sh("sh %s/run.sh %s" % (src, wt), timeout=900)
        res["steps"].append({"demo_unmodified_rc": rc1, "tail": o1[-300:]})
        rc2, o2 = sh("git apply %s/patch.diff" % src, cwd=wt)
        res["steps"].append({"apply_rc": rc2, "tail": o2[-300:]})
        rc3, o3 = sh("cmake -S . -B _tb -G Ninja -DCMAKE_BUILD_TYPE=RelWithDebInfo -DWITH_EXAMPLES=OFF "
                     "-DCMAKE_INSTALL_PREFIX=%s/_inst >/dev/null && cmake --build _tb -j6 2>&1 | tail -3 && "
                     "cmake --install _tb >/dev/null && ctest --test-dir _tb -j4 --timeout 900 2>&1 | tail -8" % wt,
                     cwd=wt, timeout=1800)
        passed = "100% tests passed" in o3
        res["steps"].append({"build_and_suite_rc": rc3, "suite_all_passed": passed, "tail": o3[-500:]})
        # force the demo to rebuild the library of the patched tree
        rc4, o4 = sh("sh %s/run.sh %s" % (src, wt), timeout=900)
        res["steps"].append({"demo_patched_rc": rc4, "tail": o4[-400:]})
        ok = (rc1 == 0 and rc2 == 0 and rc3 == 0 and passed and rc4 != 0)
    finally:
        sh("git -C /repo worktree remove --force %s" % wt)
        shutil.rmtree(wt, ignore_errors=True)
    res["confirmed"] = ok
    res["at"] = time.strftime("%Y-%m-%dT%H:%M:%S")
    print(json.dumps(res, indent=1))
    if ok:
        dst = os.path.join("/verif/seeded", name)
        os.makedirs(dst, exist_ok=True)
        for f in os.listdir(src):
            if os.path.isfile(os.path.join(src, f)):
                shutil.copy(os.path.join(src, f), os.path.join(dst, f))
        json.dump(res, open(os.path.join(dst, "confirmed.json"), "w"), indent=1)
    return 0 if ok else 1

if __name__ == "__main__":
    sys.exit(main())
