#!/usr/bin/env python3
"""MANIFEST.setup_cmd: build everything from files on disk (offline): the implementation
variants of /repo, the regenerated Gen/*.v, the whole Coq development (full .vo build)."""
import os, sys
HERE = os.path.dirname(os.path.abspath(__file__))
sys.path.insert(0, HERE)
import vlib

def main():
    for v in ("asan",):
        try:
            vlib.build_impl(v)
        except vlib.BuildError as e:
            print("setup: implementation variant %s does not build: %s" % (v, str(e)[:500]))
    with vlib.Lock("coq"):
        errs = vlib.regen()
        for e in errs:
            print("setup: translator:", e)
        vlib.coq_prepare()
        for d in os.listdir(os.path.join(vlib.VERIF, "props")):
            if d.endswith(".py") and d[0] == "C":
                os.makedirs(os.path.join(vlib.BUILD, "ocaml", d[:-3]), exist_ok=True)
        rc, out = vlib.run(["make", "-k", "-j%d" % vlib.NCPU], cwd=vlib.COQ, timeout=7200)
        print(out[-3000:])
        print("setup: coq make rc=%d" % rc)
    return 0

if __name__ == "__main__":
    sys.exit(main())
