#!/usr/bin/env python3
"""Entry point of every MANIFEST command:  tools/check.py <ID> [--tier quick|thorough] [--replay F]"""
import argparse, importlib, os, sys, traceback

HERE = os.path.dirname(os.path.abspath(__file__))
sys.path.insert(0, HERE)
sys.path.insert(0, os.path.join(os.path.dirname(HERE), "props"))
import vlib


def main():
    ap = argparse.ArgumentParser()
    ap.add_argument("pid")
    ap.add_argument("--tier", default=os.environ.get("VERIF_TIER", "quick"))
    ap.add_argument("--replay", default=None)
    a = ap.parse_args()
    tier = a.tier if a.tier in ("quick", "thorough") else "quick"
    try:
        seed = int(os.environ.get("VERIF_SEED", "1"))
    except ValueError:
        seed = 1
    ctx = vlib.Ctx(a.pid, tier, seed)
    mod = importlib.import_module(a.pid)
    level = getattr(mod, "LEVEL", "proof")
    try:
        if a.replay:
            mod.replay(ctx, a.replay)
        else:
            mod.check(ctx)
    except vlib.BuildError as e:
        # the implementation / harness / model no longer builds: property no longer shown
        ctx.violation("build failure: %s" % str(e)[:300], features={"kind": "build"},
                      replay_text=str(e), no_input=True)
    except Exception as e:
        ctx.violation("check crashed: %r" % e, features={"kind": "internal"},
                      replay_text=traceback.format_exc(), no_input=True)
    if not ctx.coverage.get("obligations"):
        ctx.coverage.setdefault("obligations", 1)
        ctx.coverage.setdefault("discharged", 0)
        ctx.coverage.setdefault("checker_cmd", "coqc (not reached)")
        ctx.coverage.setdefault("trusted_base", vlib.TRUSTED_BASE_COMMON)
    rc = vlib.finish(ctx, level)
    print("%s %s tier=%s seed=%d: %s (obligations %s/%s, evaluations %s) in %.1fs" % (
        "OK" if rc == 0 else "FAIL", a.pid, tier, seed, "no violation" if rc == 0 else "VIOLATION",
        ctx.coverage.get("discharged"), ctx.coverage.get("obligations"),
        ctx.coverage.get("evaluations"), __import__("time").time() - ctx.t0))
    sys.exit(rc)


if __name__ == "__main__":
    main()
