#!/usr/bin/env python3
"""Entry point of every MANIFEST command:  tools/check.py <ID> [--tier quick|thorough] [--replay F]"""
import argparse, importlib, json, os, sys, traceback

HERE = os.path.dirname(os.path.abspath(__file__))
sys.path.insert(0, HERE)
sys.path.insert(0, os.path.join(os.path.dirname(HERE), "props"))
import vlib


def main():
    ap = argparse.ArgumentParser()
    ap.add_argument("pid")
    ap.add_argument("--tier", default=os.environ.get("VERIF_TIER", "quick"))
    ap.add_argument("--replay", default=None)
    a = ap.parse_args()
    tier = a.tier if a.tier in ("quick", "thorough") else "quick"
    try:
        seed = int(os.environ.get("VERIF_SEED", "1"))
    except ValueError:
        seed = 1
    def one_run():
        c = vlib.Ctx(a.pid, tier, seed)
        try:
            if a.replay:
                mod.replay(c, a.replay)
            else:
                mod.check(c)
        except vlib.BuildError as e:
            # the implementation / harness / model no longer builds: property no longer shown
            c.violation("build failure: %s" % str(e)[:300], features={"kind": "build"},
                        replay_text=str(e), no_input=True)
        except Exception as e:
            c.violation("check crashed: %r" % e, features={"kind": "internal"},
                        replay_text=traceback.format_exc(), no_input=True)
        return c

    mod = importlib.import_module(a.pid)
    level = getattr(mod, "LEVEL", "proof")
    ctx = one_run()
    # Confirm before alarm: harnesses that involve real time (threads, watchdogs, sockets) can produce a
    # one-off observation on a loaded machine.  A violation is reported only if it shows again in at least
    # one of two fresh re-runs with the same seed; deterministic violations reproduce every time.
    if ctx.violations and not a.replay and os.environ.get("VERIF_NO_CONFIRM") != "1":
        def key(v):
            return (v.get("no_input"), json.dumps(v.get("features", {}), sort_keys=True), str(v.get("what", ""))[:40])
        first = ctx.violations
        seen_again = set()
        last = None
        for _ in range(2):
            c2 = one_run()
            last = c2
            for v in c2.violations:
                seen_again.add(key(v))
            if all(key(v) in seen_again for v in first):
                break
        confirmed = [v for v in first if key(v) in seen_again]
        dropped = [v for v in first if key(v) not in seen_again]
        if last is not None and not confirmed:
            ctx = last               # evidence of the clean re-run
            ctx.violations = []
        else:
            ctx.violations = confirmed
        if dropped:
            ctx.coverage["unconfirmed_observations"] = [
                {"what": str(v.get("what"))[:300], "features": v.get("features")} for v in dropped][:10]
            for v in dropped:
                print("UNCONFIRMED (not reproduced in re-runs, not reported): %s" % " ".join(str(v.get("what")).split())[:200])
    if not ctx.coverage.get("obligations"):
        ctx.coverage.setdefault("obligations", 1)
        ctx.coverage.setdefault("discharged", 0)
        ctx.coverage.setdefault("checker_cmd", "coqc (not reached)")
        ctx.coverage.setdefault("trusted_base", vlib.TRUSTED_BASE_COMMON)
    rc = vlib.finish(ctx, level)
    print("%s %s tier=%s seed=%d: %s (obligations %s/%s, evaluations %s) in %.1fs" % (
        "OK" if rc == 0 else "FAIL", a.pid, tier, seed, "no violation" if rc == 0 else "VIOLATION",
        ctx.coverage.get("discharged"), ctx.coverage.get("obligations"),
        ctx.coverage.get("evaluations"), __import__("time").time() - ctx.t0))
    sys.exit(rc)


if __name__ == "__main__":
    main()
