#!/usr/bin/env python3
"""Translator for constants: regenerates coq/Gen/Consts_<name>.v from /repo on every run.

Spec files tools/consts.d/<name>.json:
  {"includes": ["rfb/rfb.h", ...],                 headers of /repo (public or private)
   "exprs":   {"coq_name": "C integer expression"}, evaluated by compiling+running a C program
   "strings": {"coq_name": "C string expression"},  emitted as list of byte values (list Z)
   "scrape":  {"coq_name": {"file": "src/x.c", "define": "NAME"}},  file-private object-like #define,
                evaluated in a C program that sees all object-like #defines of that file
   "arrays":  {"coq_name": {"file": "src/x.c", "regex": "tightConf\\[\\d*\\]\\s*=\\s*\\{(.*?)\\};"}}
                static initialiser scraped as text; all integer literals in it, flattened, as list Z
   "texts":   {"coq_name": {"file": "src/x.c", "regex": "...(group 1)..."}}  -> integer (group 1 evaluated as C expr)
  }
If an item cannot be found or evaluated, generation of that module fails; the check reports
the property as no longer shown (the translator tie is broken) naming the item.
"""
import json, os, re, subprocess, sys, glob, tempfile, hashlib

VERIF = os.path.dirname(os.path.dirname(os.path.abspath(__file__)))


class GenError(Exception):
    pass


def object_like_defines(path):
    txt = open(path, errors="replace").read()
    txt = re.sub(r"/\*.*?\*/", " ", txt, flags=re.S)
    txt = txt.replace("\\\n", " ")
    out = []
    for m in re.finditer(r"^[ \t]*#[ \t]*define[ \t]+([A-Za-z_]\w*)[ \t]+([^\n]+)$", txt, flags=re.M):
        name, body = m.group(1), m.group(2).strip()
        body = re.sub(r"//.*$", "", body).strip()
        if body:
            out.append((name, body))
    return out


def compile_run(repo, incdir, csrc, tag):
    d = tempfile.mkdtemp(prefix="genconsts_")
    try:
        c = os.path.join(d, "p.c")
        open(c, "w").write(csrc)
        exe = os.path.join(d, "p")
        cmd = ["gcc", "-w", "-I", os.path.join(repo, "include"), "-I", incdir,
               "-I", os.path.join(repo, "src/common"), "-I", os.path.join(repo, "src/libvncserver"),
               "-I", os.path.join(repo, "src/libvncclient"), c, "-o", exe]
        p = subprocess.run(cmd, stdout=subprocess.PIPE, stderr=subprocess.STDOUT, timeout=120)
        if p.returncode != 0:
            raise GenError("%s: constant printer does not compile: %s" % (tag, p.stdout.decode()[-800:]))
        p = subprocess.run([exe], stdout=subprocess.PIPE, timeout=60)
        return p.stdout.decode()
    finally:
        subprocess.run(["rm", "-rf", d])


def generate_one(repo, incdir, spec, name):
    vals = {}   # coq name -> int | list
    incs = "".join('#include <%s>\n' % i if not i.startswith('"') else '#include %s\n' % i
                   for i in spec.get("includes", []))
    # 1. header expressions and strings
    if spec.get("exprs") or spec.get("strings"):
        body = ""
        for k, e in spec.get("exprs", {}).items():
            body += '  printf("I %s %%lld\\n", (long long)(%s));\n' % (k, e)
        for k, e in spec.get("strings", {}).items():
            body += '  { const unsigned char *s=(const unsigned char*)(%s); size_t n=strlen((const char*)s), i; printf("S %s"); for(i=0;i<n;i++) printf(" %%u", s[i]); printf("\\n"); }\n' % (e, k)
        src = "#include <stdio.h>\n#include <string.h>\n#include <stddef.h>\n" + incs + "int main(void){\n" + body + "  return 0;}\n"
        out = compile_run(repo, incdir, src, name)
        for line in out.splitlines():
            p = line.split()
            if p[0] == "I":
                vals[p[1]] = int(p[2])
            elif p[0] == "S":
                vals[p[1]] = [int(x) for x in p[2:]]
    # 2. file-private defines
    byfile = {}
    for k, s in spec.get("scrape", {}).items():
        byfile.setdefault(s["file"], []).append((k, s["define"]))
    for f, items in byfile.items():
        path = os.path.join(repo, f)
        if not os.path.exists(path):
            raise GenError("%s: file %s is gone" % (name, f))
        defs = object_like_defines(path)
        names = [d[0] for d in defs]
        for k, dn in items:
            if dn not in names:
                raise GenError("%s: #define %s no longer found in %s" % (name, dn, f))
        # only the closure of needed defines (others may not be integer expressions)
        need, todo = [], [dn for _, dn in items]
        dd = dict(defs)
        while todo:
            n = todo.pop()
            if n in need:
                continue
            need.append(n)
            for w in re.findall(r"[A-Za-z_]\w*", dd[n]):
                if w in dd and w not in need:
                    todo.append(w)
        src = "#include <stdio.h>\n#include <string.h>\n#include <stddef.h>\n" + incs
        for n, b in defs:
            if n in need:
                src += "#undef %s\n#define %s %s\n" % (n, n, b)
        src += "int main(void){\n"
        for k, dn in items:
            src += '  printf("I %s %%lld\\n", (long long)(%s));\n' % (k, dn)
        src += "  return 0;}\n"
        out = compile_run(repo, incdir, src, name + ":" + f)
        for line in out.splitlines():
            p = line.split()
            vals[p[1]] = int(p[2])
    # 3. arrays / texts scraped by regex
    for k, s in spec.get("arrays", {}).items():
        path = os.path.join(repo, s["file"])
        txt = open(path, errors="replace").read()
        txt = re.sub(r"/\*.*?\*/", " ", txt, flags=re.S)
        m = re.search(s["regex"], txt, flags=re.S)
        if not m:
            raise GenError("%s: array %s no longer found in %s" % (name, k, s["file"]))
        nums = re.findall(r"-?(?:0[xX][0-9a-fA-F]+|\d+)", m.group(1))
        vals[k] = [int(n, 0) if not re.match(r"^-?0\d+$", n) else int(n, 8) for n in nums]
    for k, s in spec.get("texts", {}).items():
        path = os.path.join(repo, s["file"])
        txt = open(path, errors="replace").read()
        m = re.search(s["regex"], txt, flags=re.S)
        if not m:
            raise GenError("%s: pattern for %s no longer found in %s" % (name, k, s["file"]))
        src = "#include <stdio.h>\n" + incs + 'int main(void){ printf("I %s %%lld\\n", (long long)(%s)); return 0;}\n' % (k, m.group(1))
        out = compile_run(repo, incdir, src, name + ":" + k)
        vals[k] = int(out.split()[2])
    for sect in ("exprs", "strings", "scrape", "arrays", "texts"):
        for k in spec.get(sect, {}):
            if k not in vals:
                raise GenError("%s: no value obtained for %s" % (name, k))
    out = ["(* GENERATED by tools/gen_consts.py from /repo on every run -- do not edit *)",
           "From Coq Require Import ZArith List.", "Import ListNotations.", "Local Open Scope Z_scope.", ""]
    for k in sorted(vals):
        v = vals[k]
        if isinstance(v, list):
            out.append("Definition %s : list Z := [%s]." % (k, "; ".join("(%d)" % x for x in v)))
        else:
            out.append("Definition %s : Z := (%d)." % (k, v))
    return "\n".join(out) + "\n"


def spec_inputs_hash(repo, incdir, spec):
    h = hashlib.sha1(json.dumps(spec, sort_keys=True).encode())
    files = set()
    for sect in ("scrape", "arrays", "texts"):
        for s in spec.get(sect, {}).values():
            files.add(s["file"])
    for f in sorted(files):
        p = os.path.join(repo, f)
        h.update(open(p, "rb").read() if os.path.exists(p) else b"<gone>")
    # headers: hash every header of the repo (cheap) + generated config
    for d in (os.path.join(repo, "include", "rfb"), os.path.join(incdir, "rfb"),
              os.path.join(repo, "src", "libvncserver"), os.path.join(repo, "src", "common"),
              os.path.join(repo, "src", "libvncclient")):
        if os.path.isdir(d):
            for n in sorted(os.listdir(d)):
                if n.endswith(".h"):
                    h.update(open(os.path.join(d, n), "rb").read())
    return h.hexdigest()


def generate_all(repo, incdir, outdir):
    errs = []
    os.makedirs(outdir, exist_ok=True)
    for sp in sorted(glob.glob(os.path.join(VERIF, "tools", "consts.d", "*.json"))):
        name = os.path.basename(sp)[:-5]
        target = os.path.join(outdir, "Consts_%s.v" % name)
        spec = json.load(open(sp))
        hh = spec_inputs_hash(repo, incdir, spec)
        stamp = target + ".stamp"
        if os.path.exists(target) and os.path.exists(stamp) and open(stamp).read() == hh:
            continue
        try:
            txt = generate_one(repo, incdir, spec, name)
            ok = True
        except Exception as e:
            errs.append("gen_consts(%s): %s" % (name, e))
            txt = "(* generation FAILED: %s *)\nDefinition generation_failed_%s : True := I.\n" % (str(e).replace("*)", "* )"), name)
            ok = False
        if not (os.path.exists(target) and open(target).read() == txt):
            open(target, "w").write(txt)
        if ok:
            open(stamp, "w").write(hh)
        elif os.path.exists(stamp):
            os.unlink(stamp)
    return errs


if __name__ == "__main__":
    print(generate_one(sys.argv[1], sys.argv[2], json.load(open(sys.argv[3])), "cli"))
