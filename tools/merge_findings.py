#!/usr/bin/env python3
"""lead's helper: known_findings.json := union of known_findings.d/<ID>.json (the per-property source files
kept current by the property owners).  Never run by a check."""
import glob, json, os
V = os.path.dirname(os.path.dirname(os.path.abspath(__file__)))
out, seen = [], set()
for q in sorted(glob.glob(os.path.join(V, "known_findings.d", "*.json"))):
    for f in json.load(open(q)).get("findings", []):
        k = (f.get("property"), f.get("id"))
        if k in seen:
            continue
        seen.add(k)
        out.append(f)
doc = {"_comment": "Genuine defects of LibVNC/libvncserver exhibited by the checks (merged from known_findings.d/<ID>.json by "
                   "tools/merge_findings.py; never written at run time). status=known: recorded, not repaired - suppresses exactly the "
                   "matching violation, which is printed as KNOWN-FINDING. status=fixed: repaired by the named 'fix:' commit in /repo; "
                   "suppresses nothing (the violation is reported again if it ever returns).",
       "findings": out}
json.dump(doc, open(os.path.join(V, "known_findings.json"), "w"), indent=1)
print(len(out), "findings;", sum(1 for f in out if f.get("status") == "known"), "known,",
      sum(1 for f in out if f.get("status") == "fixed"), "fixed")
