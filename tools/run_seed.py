#!/usr/bin/env python3
"""Run a property check against a seeded breaking change (in a scratch worktree at /repo HEAD,
removed afterwards; the shared build cache is not touched):  tools/run_seed.py <seed> [<pid>] [tier]
Records the outcome in seeded/<seed>/detect_<pid>.json."""
import json, os, re, shutil, subprocess, sys, time
V = os.path.dirname(os.path.dirname(os.path.abspath(__file__)))

def sh(cmd, cwd=None, timeout=3600, env=None):
    p = subprocess.run(cmd, shell=True, cwd=cwd, stdout=subprocess.PIPE, stderr=subprocess.STDOUT, timeout=timeout, env=env)
    return p.returncode, p.stdout.decode("utf-8", "replace")

def main():
    seed = sys.argv[1]
    pid = sys.argv[2] if len(sys.argv) > 2 else seed.split("_")[0]
    tier = sys.argv[3] if len(sys.argv) > 3 else "quick"
    wt, bd = "/tmp/seedrun_" + seed, "/tmp/seedbuild_" + seed
    sh("git -C /repo worktree remove --force " + wt); shutil.rmtree(wt, ignore_errors=True)
    sh("git -C /repo worktree add --detach %s HEAD" % wt)
    patch = os.path.join(V, "seeded", seed, "patch.diff")
    rb = os.path.join(V, "seeded", seed, "patch_rebased.diff")   # same change ported onto later fix commits
    if os.path.exists(rb):
        patch = rb
    rc, out = sh("git apply %s || git apply -3 %s" % (patch, patch), cwd=wt)
    res = {"seed": seed, "property": pid, "tier": tier, "repo_head": sh("git -C /repo rev-parse --short HEAD")[1].strip(),
           "patch_applies": rc == 0}
    if rc == 0:
        env = dict(os.environ, VERIF_REPO=wt, VERIF_BUILD=bd)
        t0 = time.time()
        rc2, out2 = sh("python3 tools/check.py %s --tier %s" % (pid, tier), cwd=V, env=env, timeout=7200)
        res.update(check_rc=rc2, wall_s=round(time.time() - t0, 1),
                   violation_lines=[l for l in out2.split("\n") if l.startswith("VIOLATION") or l.startswith("KNOWN-FINDING")][:6],
                   detected=(rc2 == 1 and "VIOLATION property=%s" % pid in out2))
        whats = []
        for l in res["violation_lines"]:
            m = re.search(r"replay=(\S+)", l)
            if m and os.path.exists(m.group(1)):
                for ln in open(m.group(1)).read().split("\n")[:6]:
                    if ln.startswith("what:"):
                        whats.append(ln[:300])
        res["what"] = whats[:3]
    else:
        res["apply_output"] = out[-500:]
    sh("git -C /repo worktree remove --force " + wt); shutil.rmtree(wt, ignore_errors=True); shutil.rmtree(bd, ignore_errors=True)
    json.dump(res, open(os.path.join(V, "seeded", seed, "detect_%s.json" % pid), "w"), indent=1)
    print(json.dumps(res, indent=1))

if __name__ == "__main__":
    main()
