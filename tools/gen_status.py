#!/usr/bin/env python3
"""Regenerates the machine-derived part of DESIGN.md (section 11: status per property, findings and
fixes, seeded-change detection matrix) from evidence/*.json, known_findings*.json, seeded/*/ and
the fix commits of /repo.  Usage: tools/gen_status.py  (rewrites the block between the markers)."""
import glob, json, os, re, subprocess
V = os.path.dirname(os.path.dirname(os.path.abspath(__file__)))
BEGIN, END = "<!-- BEGIN GENERATED STATUS -->", "<!-- END GENERATED STATUS -->"


def sh(cmd):
    return subprocess.run(cmd, shell=True, stdout=subprocess.PIPE, stderr=subprocess.DEVNULL).stdout.decode()


def findings():
    out = []
    p = os.path.join(V, "known_findings.json")
    if os.path.exists(p):
        out += json.load(open(p)).get("findings", [])
    for q in sorted(glob.glob(os.path.join(V, "known_findings.d", "*.json"))):
        out += json.load(open(q)).get("findings", [])
    seen, res = set(), []
    for f in out:
        k = (f.get("property"), f.get("id"))
        if k in seen:
            continue
        seen.add(k)
        res.append(f)
    return res


def main():
    props = {}
    for l in open(os.path.join(V, "properties.jsonl")):
        p = json.loads(l)
        props[p["id"]] = p["title"]
    man = json.load(open(os.path.join(V, "MANIFEST.json")))
    claimed = {c["property_id"]: c for c in man["checks"]}
    L = [BEGIN, "", "### 11.1 Status per property (from the evidence files of the last quick run)", "",
         "| id | title | theorems (discharged/obligations) | correspondence evaluations | distinct non-trivial | quick wall s | report |",
         "|---|---|---|---|---|---|---|"]
    for pid in sorted(props):
        ev = {}
        f = os.path.join(V, "evidence", pid + ".json")
        if os.path.exists(f):
            ev = json.load(open(f))
        c = ev.get("coverage", {})
        L.append("| %s | %s | %s/%s | %s | %s | %s | notes/%s.md |" % (
            pid, props[pid], c.get("discharged", "-"), c.get("obligations", "-"), c.get("evaluations", "-"),
            c.get("distinct_nontrivial", "-"), ev.get("wall_s", "-"), pid))
    tot_ob = tot_di = tot_ev = 0
    for pid in sorted(props):
        f = os.path.join(V, "evidence", pid + ".json")
        if os.path.exists(f):
            c = json.load(open(f)).get("coverage", {})
            tot_ob += int(c.get("obligations", 0) or 0)
            tot_di += int(c.get("discharged", 0) or 0)
            tot_ev += int(c.get("evaluations", 0) or 0)
    L += ["", "**Totals:** %d of %d property theorems discharged; %d correspondence evaluations in the last quick run of all 20 checks." % (tot_di, tot_ob, tot_ev)]
    fs = findings()
    L += ["", "### 11.2 Genuine defects exhibited by the checks", "",
          "Each `fixed` entry is one unguarded `fix:` commit in /repo (the minimised witness stays in `corpus/<ID>/`, so a "
          "regression breaks the correspondence on the first cases and is reported as a VIOLATION); `known` entries are "
          "recorded, not repaired, and are printed as `KNOWN-FINDING` by the check that exhibits them.", "",
          "| property | finding | status | commit | what |", "|---|---|---|---|---|"]
    for f in sorted(fs, key=lambda x: (x.get("property", ""), x.get("id", ""))):
        what = re.sub(r"\s+", " ", f.get("what", ""))[:260].replace("|", "/")
        L.append("| %s | %s | %s | %s | %s |" % (f.get("property"), f.get("id"), f.get("status"), f.get("commit", ""), what))
    log = sh("git -C /repo log --reverse --format='%h %s' ecb5db9..HEAD")
    L += ["", "### 11.3 `fix:` commits in /repo (oldest first)", "", "```", log.strip(), "```"]
    L += ["", "### 11.4 Independently written breaking changes (`seeded/`) and which check catches them", "",
          "Every change was written by a fresh sub-agent that saw only the property text and its own scratch worktree, "
          "was confirmed by `tools/confirm_seed.py` (applies, builds, the registered suite passes, its own demonstration "
          "passes without and fails with the change) and then run against the checks with `tools/run_seed.py` "
          "(scratch worktree at /repo HEAD, removed afterwards).", "",
          "| seed | breaks | needs to manifest | check | detected | how it is reported |", "|---|---|---|---|---|---|"]
    for d in sorted(glob.glob(os.path.join(V, "seeded", "*"))):
        name = os.path.basename(d)
        meta = {}
        try:
            meta = json.load(open(os.path.join(d, "meta.json")))
        except Exception:
            pass
        dets = sorted(glob.glob(os.path.join(d, "detect_*.json")))
        if not dets:
            L.append("| %s | %s | %s | - | not run yet | |" % (name, str(meta.get("what_it_breaks", ""))[:160].replace("|", "/"),
                                                          str(meta.get("needs_to_manifest", ""))[:160].replace("|", "/")))
        for i, dd in enumerate(dets):
            r = json.load(open(dd))
            how = (r.get("what") or [""])[0].replace("what: ", "")[:170].replace("|", "/")
            if r.get("violation_lines") and "no-failing-input-found" in " ".join(r["violation_lines"]) and r.get("detected"):
                how += " (no-failing-input-found)"
            L.append("| %s | %s | %s | %s | %s | %s |" % (
                name if i == 0 else "", str(meta.get("what_it_breaks", ""))[:160].replace("|", "/") if i == 0 else "",
                str(meta.get("needs_to_manifest", ""))[:160].replace("|", "/") if i == 0 else "",
                r.get("property"), "yes" if r.get("detected") else "**no**", how))
    # summary: a seeded change counts as caught when at least one check reports it
    tot, caught, cross = 0, 0, []
    for d in sorted(glob.glob(os.path.join(V, "seeded", "*"))):
        dets = [json.load(open(x)) for x in sorted(glob.glob(os.path.join(d, "detect_*.json")))]
        if not dets:
            continue
        tot += 1
        name = os.path.basename(d)
        own = name.split("_")[0]
        yes = [r["property"] for r in dets if r.get("detected")]
        if yes:
            caught += 1
        if own not in yes and yes:
            cross.append("%s (caught by %s, not by %s)" % (name, "/".join(yes), own))
    L += ["", "**Summary:** %d seeded changes were run, %d are caught by at least one check." % (tot, caught)]
    if cross:
        L += ["Caught only by a neighbouring property's check (the change lies in that property's code path): " + "; ".join(cross) + "."]
    L += ["", END]
    p = os.path.join(V, "DESIGN.md")
    s = open(p).read()
    block = "\n".join(L)
    if BEGIN in s and END in s:
        s = s[:s.index(BEGIN)] + block + s[s.index(END) + len(END):]
    else:
        s = s.rstrip("\n") + "\n\n(The rest of this section is generated by tools/gen_status.py.)\n\n" + block + "\n"
    open(p, "w").write(s)
    print("DESIGN.md section 11 regenerated: %d findings" % len(fs))


if __name__ == "__main__":
    main()
