#include "vsess.h"
#include <pthread.h>
static const char HS[] = "GET /websockify HTTP/1.1\r\nHost: localhost:5900\r\nUpgrade: websocket\r\nConnection: Upgrade\r\nSec-WebSocket-Key: dGhlIHNhbXBsZSBub25jZQ==\r\nSec-WebSocket-Protocol: binary\r\nSec-WebSocket-Version: 13\r\nOrigin: http://x\r\n\r\n";
static void frame(int fd, const unsigned char *p, int n){ unsigned char h[6]={0x82,0x80|n,1,2,3,4}; unsigned char b[200]; int i; for(i=0;i<n;i++) b[i]=p[i]^h[2+i%4]; write(fd,h,6); write(fd,b,n); }
int main(void){
  setvbuf(stdout,NULL,_IONBF,0); vs_quiet();
  rfbScreenInfoPtr s = vs_screen(4,4,4);
  s->backgroundLoop = TRUE;
  int sv[2]; socketpair(AF_UNIX,SOCK_STREAM,0,sv);
  write(sv[1],HS,sizeof HS-1);
  rfbClientPtr cl=rfbNewClient(s,sv[0]);
  printf("client %p ws=%p\n",(void*)cl,cl?(void*)cl->wsctx:NULL);
  rfbStartOnHoldClient(cl);
  frame(sv[1],(const unsigned char*)"RFB 003.008\n\x01\x01",14);
  usleep(300000);
  /* one frame: two messages of unknown type: the first closes the client, the drain loop goes on */
  frame(sv[1],(const unsigned char*)"\xc8\xc8\xc8\xc8",4);
  sleep(1);
  printf("survived\n");
  return 0;
}
