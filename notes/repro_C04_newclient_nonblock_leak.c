#include "vsess.h"
#include <stdarg.h>
int __real_fcntl(int, int, ...);
static int fail_next;
int __wrap_fcntl(int fd, int cmd, ...) {
  va_list ap; long a; va_start(ap, cmd); a = va_arg(ap, long); va_end(ap);
  if (fail_next && (cmd == F_SETFL || cmd == F_GETFL)) { fail_next = 0; errno = EBADF; return -1; }
  return __real_fcntl(fd, cmd, a);
}
int main(void){
  setvbuf(stdout,NULL,_IONBF,0); vs_quiet();
  rfbScreenInfoPtr s = vs_screen(4,4,4);
  int sv[2]; socketpair(AF_UNIX,SOCK_STREAM,0,sv);
  write(sv[1],"RFB 003.008\n",12);
  printf("refcount before %d\n", s->scaledScreenRefCount);
  fail_next = 1;
  rfbClientPtr cl = rfbNewClient(s, sv[0]);
  printf("rfbNewClient -> %p, refcount after %d, clientHead %p, fd still open: %d\n", (void*)cl, s->scaledScreenRefCount, (void*)s->clientHead, fcntl(sv[0],F_GETFD)!=-1);
  rfbScreenCleanup(s);
  return 0;
}
